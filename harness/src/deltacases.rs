//! Shared case generators for C01 / C05 / C16: the byte-level space (all pairs over Σ₃)
//! and the chunk-level space (chunk strings × edit scripts × block sizes), plus the
//! textbook greedy reference (byte comparison only).

use crate::common::*;
use serde_json::{json, Value};
use std::collections::HashMap;

pub const LEGAL_SIZES: [usize; 8] = [512, 1024, 2048, 4096, 8192, 16384, 32768, 65536];

// ───────────── byte level ─────────────

/// All strings over {0,1,2} of length 0..=n, shortest first.
pub fn sigma3_strings(n: usize) -> Vec<Vec<u8>> {
    let mut out = vec![vec![]];
    for len in 1..=n {
        let cnt = 3usize.pow(len as u32);
        for i in 0..cnt {
            let mut k = i;
            let mut s = Vec::with_capacity(len);
            for _ in 0..len {
                s.push((k % 3) as u8);
                k /= 3;
            }
            out.push(s);
        }
    }
    out
}

// ───────────── chunk level ─────────────

pub const CHUNK_KINDS: [&str; 6] = ["Z", "F", "H", "R1", "R2", "W"];

fn seeded(seed: u64, tag: u64, n: usize) -> Vec<u8> {
    Rng::new(seed.wrapping_mul(0x100_0000_01B3) ^ tag).bytes(n)
}

pub fn chunk(kind: &str, b: usize, seed: u64) -> Vec<u8> {
    match kind {
        "Z" => vec![0u8; b],
        "F" => vec![0xFFu8; b],
        "H" => seeded(seed, 11, b).into_iter().map(|x| x | 0x80).collect(),
        "R1" => seeded(seed, 21, b),
        "R2" => seeded(seed, 22, b),
        "W" => {
            // Same byte sum and same weighted sum as R1, different content:
            // x[i]+=1, x[i+1]-=2, x[i+2]+=1 leaves Σx and Σ(n-i)x unchanged.
            let mut v = seeded(seed, 21, b);
            let mut done = false;
            for i in 0..b.saturating_sub(2) {
                if v[i] < 255 && v[i + 1] >= 2 && v[i + 2] < 255 {
                    v[i] += 1;
                    v[i + 1] -= 2;
                    v[i + 2] += 1;
                    done = true;
                    break;
                }
            }
            if !done {
                machinery_error("cannot build weak-collision chunk W");
            }
            v
        }
        "t" => seeded(seed, 31, b / 3),
        _ => machinery_error(format!("unknown chunk kind {kind}")),
    }
}

pub fn junk(seed: u64, tag: u64, n: usize) -> Vec<u8> {
    seeded(seed, 1000 + tag, n)
}

/// basis spec: comma-separated chunk kinds, e.g. "R1,W,t"; "" = empty file.
pub fn build_basis(spec: &str, b: usize, seed: u64) -> Vec<u8> {
    let mut out = Vec::new();
    for k in spec.split(',').filter(|s| !s.is_empty()) {
        out.extend_from_slice(&chunk(k, b, seed));
    }
    out
}

fn resolve_off(o: &str, len: usize, b: usize) -> usize {
    let v = match o {
        "0" => 0,
        "1" => 1,
        "B-1" => b - 1,
        "B" => b,
        "B+1" => b + 1,
        "mid" => len / 2,
        "end-1" => len.saturating_sub(1),
        "end" => len,
        _ => 0,
    };
    v.min(len)
}
fn resolve_k(k: &str, b: usize) -> usize {
    match k {
        "1" => 1,
        "7" => 7,
        "B-1" => b - 1,
        _ => 1,
    }
}

/// Apply an edit spec to a basis. Returns the source.
pub fn apply_edit(basis: &[u8], spec: &str, edit: &Value, b: usize, seed: u64) -> Vec<u8> {
    let op = edit["op"].as_str().unwrap_or("identity");
    match op {
        "identity" => basis.to_vec(),
        "empty" => Vec::new(),
        "different" => junk(seed, 7, 2 * b + 5),
        "reverse" | "dupfirst" | "dropfirst" | "droplast" => {
            let kinds: Vec<&str> = spec.split(',').filter(|s| !s.is_empty()).collect();
            let mut ks: Vec<&str> = kinds.clone();
            match op {
                "reverse" => ks.reverse(),
                "dupfirst" => {
                    if let Some(f) = kinds.first() {
                        ks.insert(0, f)
                    }
                }
                "dropfirst" => {
                    if !ks.is_empty() {
                        ks.remove(0);
                    }
                }
                _ => {
                    ks.pop();
                }
            }
            let mut out = Vec::new();
            for k in ks {
                out.extend_from_slice(&chunk(k, b, seed));
            }
            out
        }
        "prefix" => {
            let j = edit["j"].as_u64().unwrap_or(1) as usize;
            let mut out = junk(seed, 9, j);
            out.extend_from_slice(basis);
            out
        }
        "insert" | "delete" | "replace" => {
            let o = resolve_off(edit["o"].as_str().unwrap_or("0"), basis.len(), b);
            let k = resolve_k(edit["k"].as_str().unwrap_or("1"), b);
            let mut out = basis[..o].to_vec();
            match op {
                "insert" => {
                    out.extend_from_slice(&junk(seed, 3, k));
                    out.extend_from_slice(&basis[o..]);
                }
                "delete" => {
                    let e = (o + k).min(basis.len());
                    out.extend_from_slice(&basis[e..]);
                }
                _ => {
                    let e = (o + k).min(basis.len());
                    // replacement bytes differ from the originals at every position
                    let rep: Vec<u8> = basis[o..e].iter().map(|x| x ^ 0x5A).collect();
                    out.extend_from_slice(&rep);
                    out.extend_from_slice(&basis[e..]);
                }
            }
            out
        }
        _ => basis.to_vec(),
    }
}

pub fn basis_specs(max_chunks: usize) -> Vec<String> {
    let mut out = vec![String::new()];
    let mut level: Vec<Vec<&str>> = vec![vec![]];
    for _ in 0..max_chunks {
        let mut nl = Vec::new();
        for p in &level {
            for k in CHUNK_KINDS {
                let mut q = p.clone();
                q.push(k);
                out.push(q.join(","));
                let mut qt = q.clone();
                qt.push("t");
                out.push(qt.join(","));
                nl.push(q);
            }
        }
        level = nl;
    }
    out
}

pub fn edit_menu(full: bool) -> Vec<Value> {
    let mut m = vec![
        json!({"op":"identity"}),
        json!({"op":"empty"}),
        json!({"op":"different"}),
        json!({"op":"reverse"}),
        json!({"op":"dupfirst"}),
        json!({"op":"dropfirst"}),
        json!({"op":"droplast"}),
    ];
    let js: &[u64] = if full { &[1, 4999, 5000, 5001, 5003] } else { &[1, 5001] };
    for &j in js {
        m.push(json!({"op":"prefix","j":j}));
    }
    let ks: &[&str] = if full { &["1", "7", "B-1"] } else { &["1", "B-1"] };
    let os: &[&str] = if full { &["0", "1", "B-1", "B", "B+1", "mid", "end-1", "end"] } else { &["0", "B-1", "B+1", "end"] };
    for op in ["insert", "delete", "replace"] {
        for k in ks {
            for o in os {
                m.push(json!({"op":op,"k":k,"o":o}));
            }
        }
    }
    m
}

// ───────────── textbook greedy reference ─────────────

/// Literal byte count of the textbook greedy scan, decided by byte comparison.
/// A polynomial rolling hash of the harness's own is used only as a pre-filter
/// (equal bytes ⇒ equal hash, so it cannot cause a false negative); every hit is
/// confirmed by comparing bytes. For `brute`, no filter at all.
pub fn greedy_literal(basis: &[u8], source: &[u8], b: usize, brute: bool) -> (u64, u64) {
    // returns (literal bytes, number of copies emitted)
    if b == 0 {
        return (source.len() as u64, 0);
    }
    let full: Vec<&[u8]> = basis.chunks(b).filter(|c| c.len() == b).collect();
    if full.is_empty() || source.len() < b {
        return (source.len() as u64, 0);
    }
    let mut lit = 0u64;
    let mut copies = 0u64;
    let mut pos = 0usize;
    if brute {
        while pos + b <= source.len() {
            let w = &source[pos..pos + b];
            if full.iter().any(|c| *c == w) {
                copies += 1;
                pos += b;
            } else {
                lit += 1;
                pos += 1;
            }
        }
        lit += (source.len() - pos) as u64;
        return (lit, copies);
    }
    const P: u64 = 0x0000_0100_0000_01B3;
    let ph = |s: &[u8]| s.iter().fold(0u64, |h, &x| h.wrapping_mul(P).wrapping_add(u64::from(x) + 1));
    let mut pow = 1u64; // P^(b-1)
    for _ in 0..b - 1 {
        pow = pow.wrapping_mul(P);
    }
    let mut table: HashMap<u64, Vec<usize>> = HashMap::new();
    for (i, c) in full.iter().enumerate() {
        table.entry(ph(c)).or_default().push(i);
    }
    let mut h = ph(&source[..b]);
    loop {
        if pos + b > source.len() {
            break;
        }
        let w = &source[pos..pos + b];
        let hit = table.get(&h).is_some_and(|c| c.iter().any(|&i| full[i] == w));
        if hit {
            copies += 1;
            pos += b;
            if pos + b <= source.len() {
                h = ph(&source[pos..pos + b]);
            }
        } else {
            lit += 1;
            if pos + b < source.len() {
                let old = u64::from(source[pos]) + 1;
                let new = u64::from(source[pos + b]) + 1;
                h = h.wrapping_sub(old.wrapping_mul(pow)).wrapping_mul(P).wrapping_add(new);
            }
            pos += 1;
        }
    }
    lit += (source.len() - pos) as u64;
    (lit, copies)
}

/// Are all full blocks of `basis` pairwise distinct?
pub fn distinct_blocks(basis: &[u8], b: usize) -> bool {
    let full: Vec<&[u8]> = basis.chunks(b).filter(|c| c.len() == b).collect();
    let mut set = std::collections::HashSet::new();
    full.iter().all(|c| set.insert(*c))
}

thread_local! {
    static RT: tokio::runtime::Runtime = tokio::runtime::Builder::new_current_thread()
        .build()
        .unwrap_or_else(|e| machinery_error(format!("tokio runtime: {e}")));
}

pub fn block_on<F: std::future::Future>(f: F) -> F::Output {
    RT.with(|rt| rt.block_on(f))
}
