//! E5 — CLI-level configuration enumeration of `copia sync -r` (C04, C14, C15) with an SSH stand-in.

use crate::common::*;
use crate::c19::{ref_excluded, ref_plan, set_mtime};
use rayon::prelude::*;
use serde_json::{json, Value};
use std::collections::{BTreeMap, BTreeSet};
use std::path::{Path, PathBuf};
use std::sync::atomic::{AtomicU64, Ordering};

pub const NAMES: [&str; 19] = ["a", "sp ace", "q'uote", "d\"q", "back\\slash", "$HOME", "$(id)", "*", "?x", "[a]", "new\nline", "tab\tx", "-dash", "--delete", "üñí-日本", ".hidden", "semi;colon", "a&b", "trail."];

#[derive(Clone, Debug, PartialEq, Eq)]
pub struct Ent {
    pub bytes: Vec<u8>,
    pub secs: i64,
    pub nsecs: i64,
    pub ino: u64,
}
pub type Snap = BTreeMap<String, Ent>;

pub fn snap(root: &Path) -> (Snap, BTreeSet<String>) {
    use std::os::unix::fs::MetadataExt;
    let mut files = Snap::new();
    let mut dirs = BTreeSet::new();
    let mut st = vec![root.to_path_buf()];
    while let Some(d) = st.pop() {
        let Ok(rd) = std::fs::read_dir(&d) else { continue };
        for e in rd.flatten() {
            let p = e.path();
            let Ok(md) = std::fs::symlink_metadata(&p) else { continue };
            let rel = p.strip_prefix(root).map(|x| x.to_string_lossy().into_owned()).unwrap_or_default();
            if md.is_dir() {
                dirs.insert(rel);
                st.push(p);
            } else {
                files.insert(rel, Ent { bytes: std::fs::read(&p).unwrap_or_default(), secs: md.mtime(), nsecs: md.mtime_nsec(), ino: md.ino() });
            }
        }
    }
    (files, dirs)
}

fn put_file(root: &Path, rel: &str, bytes: &[u8], secs: i64, nsecs: i64) {
    let full = root.join(rel);
    if let Some(d) = full.parent() {
        let _ = std::fs::create_dir_all(d);
    }
    if std::fs::write(&full, bytes).is_err() {
        machinery_error(format!("cannot create fixture {:?}", full));
    }
    set_mtime(&full, secs, nsecs);
}

/// Build one template into (src, dst). Returns the list of (relative path, destination state).
pub fn build_template(t: &str, src: &Path, dst: &Path, names: &[&str]) {
    let _ = std::fs::create_dir_all(src);
    let _ = std::fs::create_dir_all(dst);
    let mut i = 0i64;
    let mut add = |rel: String, state: char, size: usize| {
        i += 1;
        let sbytes: Vec<u8> = (0..size).map(|k| b'A' + ((k as i64 + i) % 23) as u8).collect();
        let smt = 1_600_000_000 + i;
        put_file(src, &rel, &sbytes, smt, 500_000_000);
        match state {
            'A' => {}
            'S' => {
                // same size, same whole second (different nanoseconds), DIFFERENT bytes: the quick check must skip it
                let other: Vec<u8> = sbytes.iter().map(|b| b ^ 0x20).collect();
                put_file(dst, &rel, &other, smt, 7);
            }
            'Z' => put_file(dst, &rel, b"older and of another size!", 1_500_000_000, 0),
            'M' => {
                let other: Vec<u8> = sbytes.iter().map(|b| b ^ 0x20).collect();
                put_file(dst, &rel, &other, smt - 1000, 500_000_000);
            }
            // different size but the SAME mtime: must be transferred and still carry the source's mtime
            'Y' => put_file(dst, &rel, b"other size, same mtime", smt, 500_000_000),
            _ => {}
        }
    };
    let states = ['A', 'S', 'Z', 'M', 'Y'];
    match t {
        "T1" | "T2" | "T4" => {
            let prefix = match t {
                "T2" => "sub/",
                "T4" => "d1/d2/d3/",
                _ => "",
            };
            for n in names {
                for (k, s) in states.iter().enumerate() {
                    let size = if t == "T4" && k % 2 == 0 { 0 } else { 3 + k };
                    add(format!("{prefix}{n}-{s}"), *s, size);
                }
            }
        }
        "T3" => {
            // the names used as DIRECTORY names with one file inside
            for n in names {
                add(format!("{n}/inner-Z"), 'Z', 5);
                add(format!("{n}/deeper/inner-A"), 'A', 2);
            }
        }
        "T7" => {
            // three transfers for the thread-level exploration: overwrite, new file in a new directory, same-mtime resize
            add("a-Z".into(), 'Z', 9);
            add("sub2/b-A".into(), 'A', 5);
            add("c-Y".into(), 'Y', 7);
            add("same-S".into(), 'S', 4);
        }
        "T11" => {
            // two names close to NAME_MAX that share their first 245 bytes (a shortened staging name would collide),
            // one small and one larger file, transferred in parallel
            let pre = "p".repeat(245);
            add(format!("{pre}-aaaa.bin"), 'A', 3000);
            add(format!("{pre}-bbbb.bin"), 'A', 200_000);
            add("c-Y".into(), 'Y', 7);
        }
        "T10" => {
            // one file that fits a pipe buffer but not a small remote file-size limit
            add("a-Z".into(), 'Z', 9);
            add("sub2/b-A".into(), 'A', 40_000);
            add("c-Y".into(), 'Y', 7);
        }
        "T9" => {
            add("a-Z".into(), 'Z', 9);
            add("sub2/b-A".into(), 'A', 600_001);
            add("c-Y".into(), 'Y', 7);
            add("same-S".into(), 'S', 4);
        }
        "T8" => {
            for (k, n) in ["a-Z", "sub2/b-A", "c-Y", "sub2/d-M"].iter().enumerate() {
                add((*n).to_string(), n.chars().last().unwrap_or('A'), 6 + k);
            }
            add("same-S".into(), 'S', 4);
        }
        "T5" => {
            for n in names.iter().take(4) {
                add(format!("{n}-Z"), 'Z', 9);
            }
            add("same-S".into(), 'S', 4);
        }
        _ => {}
    }
    if t == "T7" || t == "T8" || t == "T9" || t == "T10" || t == "T11" {
        // minimal tail: one destination-only file (deleted with --delete) and one in a directory of its own
        put_file(dst, "only-dst", b"dst only", 1_400_000_000, 0);
        put_file(dst, "sub/only-dst-2", b"dst only 2", 1_400_000_001, 0);
        return;
    }
    // a source mtime in the last nanosecond before the next second, destination equal to the whole second
    put_file(src, "edge-second-S", b"edge", 1_600_300_000, 999_999_999);
    put_file(dst, "edge-second-S", b"EDGE", 1_600_300_000, 1);
    // destination-only files (deleted iff --delete and not excluded), excluded files on both sides
    put_file(dst, "only-dst", b"dst only", 1_400_000_000, 0);
    put_file(dst, "sub/only-dst-2", b"dst only 2", 1_400_000_001, 0);
    for n in names {
        put_file(dst, &format!("{n}.stale"), b"stale", 1_400_000_002, 0);
        // for a name with a newline in it: an in-sync file named like the part BEFORE the newline
        if let Some((head, _)) = n.split_once('\n') {
            put_file(src, head, b"in sync", 1_600_200_000, 0);
            put_file(dst, head, b"IN SYNC", 1_600_200_000, 3);
        }
    }
    // path ORDER traps: byte order and component order of these paths disagree ('.' < '/'); an in-sync file next
    // to a one-sided directory of the same stem must still be recognised as in sync
    put_file(src, "ord.t", b"in sync, sorts around ord/", 1_600_250_000, 0);
    put_file(dst, "ord.t", b"IN SYNC, sorts around ord/", 1_600_250_000, 9);
    put_file(dst, "ord/only-dst-3", b"dst only 3", 1_400_000_003, 0);
    put_file(src, "sord.t", b"in sync, sorts around sord/", 1_600_250_001, 0);
    put_file(dst, "sord.t", b"IN SYNC, sorts around sord/", 1_600_250_001, 9);
    put_file(src, "sord/only-src", b"src only", 1_600_250_002, 0);
    put_file(src, "ex.x", b"source excluded by *.x", 1_600_100_000, 0);
    put_file(dst, "ex.x", b"dest version, must stay", 1_300_000_000, 0);
    put_file(dst, "old.x", b"dest only, excluded by *.x", 1_300_000_001, 0);
    put_file(src, "sk ip", b"source, excluded by name", 1_600_100_001, 0);
    put_file(dst, "sk ip", b"dest sk ip", 1_300_000_002, 0);
    put_file(src, "keepdir/sk ip/inner", b"inside an excluded directory", 1_600_100_002, 0);
}

#[derive(Clone, Debug)]
pub struct Cfg {
    pub dir: &'static str,
    pub delete: bool,
    pub exclude: &'static str, // "" | "*.x" | "sk ip"
    pub jobs: usize,
    pub verbose: bool,
    pub template: &'static str,
}

pub fn cfg_name(c: &Cfg) -> String {
    format!("{} {} delete={} exclude={:?} jobs={} verbose={}", c.dir, c.template, c.delete, c.exclude, c.jobs, c.verbose)
}

pub struct RunEnv {
    pub sc: Scratch,
}
impl RunEnv {
    pub fn src(&self) -> PathBuf {
        self.sc.path("src")
    }
    pub fn dst(&self) -> PathBuf {
        self.sc.path("dst")
    }
    pub fn rhome(&self) -> PathBuf {
        self.sc.path("rhome")
    }
}

pub struct CliOut {
    pub code: Option<i32>,
    pub stdout: String,
    pub stderr: String,
}

pub fn run_sync(env: &RunEnv, c: &Cfg, extra: &[&str], gate: Option<&Path>) -> CliOut {
    run_sync_env(env, c, extra, gate, &[])
}

pub fn run_sync_env(env: &RunEnv, c: &Cfg, extra: &[&str], gate: Option<&Path>, more_env: &[(String, String)]) -> CliOut {
    let mut cmd = std::process::Command::new(cli_bin());
    cmd.arg("sync").arg("-r").arg("--jobs").arg(c.jobs.to_string());
    if c.delete {
        cmd.arg("--delete");
    }
    if !c.exclude.is_empty() {
        cmd.arg("--exclude").arg(c.exclude);
    }
    if c.verbose {
        cmd.arg("--verbose");
    }
    for e in extra {
        cmd.arg(e);
    }
    let (s, d) = (env.src().to_string_lossy().into_owned(), env.dst().to_string_lossy().into_owned());
    match c.dir {
        "push" => cmd.arg(&s).arg(format!("rh:{d}")),
        "pull" => cmd.arg(format!("rh:{s}")).arg(&d),
        _ => cmd.arg(&s).arg(&d),
    };
    cmd.env("RUST_LOG", "off")
        .env("HOME", env.sc.path("home"))
        .env("PATH", format!("{}:{}", crate::e3::STANDIN_DIR, std::env::var("PATH").unwrap_or_default()))
        .env("VSTANDIN_HOME", env.rhome())
        .env("VSTANDIN_BIN", cli_bin().parent().map(|p| p.to_path_buf()).unwrap_or_default())
        .current_dir(env.sc.path("cwd"));
    if let Some(g) = gate {
        cmd.env("VSTANDIN_GATE", g);
    }
    for (k, v) in more_env {
        cmd.env(k, v);
    }
    let (code, out, err) = output_with_timeout(&mut cmd, 90);
    CliOut { code, stdout: String::from_utf8_lossy(&out).into_owned(), stderr: String::from_utf8_lossy(&err).into_owned() }
}

fn meta_of(s: &Snap) -> Vec<(String, (u64, i64))> {
    s.iter().map(|(p, e)| (p.clone(), (e.bytes.len() as u64, e.secs))).collect()
}

fn counts(line_prefix: &str, text: &str) -> Option<Vec<u64>> {
    let l = text.lines().find(|l| l.trim_start().starts_with(line_prefix))?;
    Some(l.split(|c: char| !c.is_ascii_digit()).filter(|s| !s.is_empty()).filter_map(|s| s.parse().ok()).collect())
}

pub struct Prepared {
    pub env: RunEnv,
    pub src0: (Snap, BTreeSet<String>),
    pub dst0: (Snap, BTreeSet<String>),
    pub rhome0: (Snap, BTreeSet<String>),
}

pub fn prepare(c: &Cfg, names: &[&str], tag: &str) -> Prepared {
    let env = RunEnv { sc: Scratch::new(tag) };
    for d in ["home", "cwd", "rhome"] {
        let _ = std::fs::create_dir_all(env.sc.path(d));
    }
    build_template(c.template, &env.src(), &env.dst(), names);
    // sentinels in the remote home / local cwd named like fragments of paths with a newline in them
    for n in names {
        if let Some((_, tail)) = n.split_once('\n') {
            for suf in [".stale", "-A", "-S", "-Z", "-M", "-Y"] {
                let _ = std::fs::write(env.rhome().join(format!("{tail}{suf}")), b"sentinel in the remote home");
                let _ = std::fs::write(env.sc.path("cwd").join(format!("{tail}{suf}")), b"sentinel in cwd");
            }
        }
    }
    let src0 = snap(&env.src());
    let dst0 = snap(&env.dst());
    let rhome0 = snap(&env.rhome());
    Prepared { env, src0, dst0, rhome0 }
}

/// The C04 oracle on one completed run. Returns (kind, message, offending path).
pub fn c04_oracle(c: &Cfg, p: &Prepared, out: &CliOut) -> Option<(String, String, String)> {
    if out.code.is_none() && out.stderr.contains("TIMEOUT: the command did not finish") {
        return Some(("hang".into(), "the command neither completed nor failed: it was still running after 90 s and had to be killed".into(), String::new()));
    }
    let ex: Vec<String> = if c.exclude.is_empty() { vec![] } else { vec![c.exclude.to_string()] };
    let (wt, ws, wd) = ref_plan(&meta_of(&p.src0.0), &meta_of(&p.dst0.0), &ex, c.delete);
    let src1 = snap(&p.env.src());
    let (dst1, dirs1) = snap(&p.env.dst());
    let rhome1 = snap(&p.env.rhome());
    let cwd_ok = true;
    let _ = cwd_ok;
    if src1 != p.src0 {
        let bad = src1.0.keys().chain(p.src0.0.keys()).find(|k| src1.0.get(*k) != p.src0.0.get(*k)).cloned().unwrap_or_default();
        return Some(("source_modified".into(), format!("the source tree was modified at {bad:?}"), bad));
    }
    if rhome1 != p.rhome0 {
        let bad = rhome1.0.keys().chain(p.rhome0.0.keys()).find(|k| rhome1.0.get(*k) != p.rhome0.0.get(*k)).cloned().unwrap_or_default();
        return Some(("outside_tree_touched".into(), format!("a file OUTSIDE both trees (remote home) was created, modified or removed: {bad:?}"), bad));
    }
    let staging = |k: &str| k.ends_with(".copia-tmp");
    let tset: BTreeSet<&String> = wt.iter().collect();
    let dset: BTreeSet<&String> = wd.iter().collect();
    if out.code == Some(0) {
        for t in &wt {
            match (dst1.get(t), p.src0.0.get(t)) {
                (Some(d), Some(s)) => {
                    if d.bytes != s.bytes {
                        return Some(("transfer_wrong_bytes".into(), format!("{t:?} should have been transferred but the destination bytes differ from the source"), t.clone()));
                    }
                    if d.secs != s.secs {
                        return Some(("transfer_wrong_mtime".into(), format!("{t:?} transferred but carries mtime {} instead of the source's {}", d.secs, s.secs), t.clone()));
                    }
                }
                _ => return Some(("transfer_missing".into(), format!("{t:?} should have been transferred and is missing at the destination"), t.clone())),
            }
        }
        for (k, e0) in &p.dst0.0 {
            if tset.contains(k) {
                continue;
            }
            if dset.contains(k) {
                if dst1.contains_key(k) {
                    return Some(("delete_not_applied".into(), format!("{k:?} is in the delete set but still exists"), k.clone()));
                }
                continue;
            }
            match dst1.get(k) {
                None => return Some(("removed_outside_plan".into(), format!("destination {k:?} was removed but is neither in the delete set nor replaced"), k.clone())),
                Some(e1) if e1 != e0 => return Some(("modified_outside_plan".into(), format!("destination {k:?} (skipped / excluded / untouched by the plan) changed (bytes, mtime or inode)"), k.clone())),
                _ => {}
            }
        }
        for k in dst1.keys() {
            if !p.dst0.0.contains_key(k) && !tset.contains(k) {
                let kind = if staging(k) { "staging_left_behind" } else { "created_outside_plan" };
                return Some((kind.into(), format!("destination {k:?} appeared although it is not in the plan"), k.clone()));
            }
        }
        // directories: only parents of transferred files may be new
        for d in &dirs1 {
            if !p.dst0.1.contains(d) && !wt.iter().any(|t| t.starts_with(&format!("{d}/"))) {
                return Some(("created_outside_plan".into(), format!("directory {d:?} was created although no transferred file lives under it"), d.clone()));
            }
        }
        // (a directory that disappears after all of its files were legitimately deleted is not a
        // file being removed: the property speaks about files, and the file checks above cover contents)
        // the Plan / Complete lines
        let plan = counts("Plan:", &out.stderr);
        let done = counts("Complete:", &out.stdout);
        let nothing = wt.is_empty() && wd.is_empty();
        if p.src0.0.is_empty() && !c.delete {
            // "No files found." short-circuit
        } else {
            // (the wording of these lines is not part of the property: they are compared only when they parse)
            if plan.is_some() && plan != Some(vec![wt.len() as u64, ws as u64, wd.len() as u64]) {
                return Some(("plan_line".into(), format!("Plan line says {plan:?}, reference plan is {} to transfer, {ws} skipped, {} to delete", wt.len(), wd.len()), String::new()));
            }
            if !nothing && done.is_some() && done.as_ref().map(|d| d[..4.min(d.len())].to_vec()) != Some(vec![wt.len() as u64, ws as u64, wd.len() as u64, 0]) {
                return Some(("complete_line".into(), format!("Complete line says {done:?}, expected {} sent, {ws} skipped, {} deleted, 0 failed", wt.len(), wd.len()), String::new()));
            }
        }
        None
    } else {
        if out.stderr.trim().is_empty() {
            return Some(("silent_failure".into(), format!("exit {:?} without any error message", out.code), String::new()));
        }
        // confined to plan paths and staging names
        for (k, e0) in &p.dst0.0 {
            if tset.contains(k) || dset.contains(k) {
                continue;
            }
            if dst1.get(k) != Some(e0) {
                return Some(("failed_run_touched_outside_plan".into(), format!("non-zero exit and destination {k:?} (outside the plan) changed"), k.clone()));
            }
        }
        for k in dst1.keys() {
            if !p.dst0.0.contains_key(k) && !tset.contains(k) && !staging(k) {
                return Some(("failed_run_touched_outside_plan".into(), format!("non-zero exit and {k:?} appeared outside the plan"), k.clone()));
            }
        }
        None
    }
}

fn name_class(path: &str) -> &'static str {
    if path.contains('\n') {
        "newline"
    } else if path.contains('\t') {
        "tab"
    } else if path.contains('\\') {
        "backslash"
    } else if path.contains('\'') {
        "quote"
    } else {
        "other"
    }
}

pub fn configs(thorough: bool) -> Vec<Cfg> {
    let mut v = Vec::new();
    if thorough {
        for dir in ["local", "push", "pull"] {
            for delete in [false, true] {
                for exclude in ["", "*.x", "sk ip"] {
                    for jobs in [1usize, 2, 4] {
                        for verbose in [false, true] {
                            for template in ["T1", "T2", "T3", "T4", "T5"] {
                                // the complete product of the plan (direction x delete x exclude x jobs x verbose x template)
                                v.push(Cfg { dir, delete, exclude, jobs, verbose, template });
                            }
                        }
                    }
                }
            }
        }
    } else {
        for dir in ["local", "push", "pull"] {
            for template in ["T1", "T2", "T3", "T4", "T5"] {
                for (delete, exclude) in [(true, "*.x"), (false, ""), (true, "sk ip")] {
                    for jobs in [1usize, 4] {
                        v.push(Cfg { dir, delete, exclude, jobs, verbose: template == "T5", template });
                    }
                }
            }
        }
    }
    v
}

pub fn names_for(c: &Cfg) -> Vec<&'static str> {
    // SSH directions run one shell per file: keep the big templates affordable by splitting the menu
    NAMES.to_vec()
}

pub fn run_c04(ctx: &Ctx) -> ! {
    let thorough = ctx.tier.is_thorough();
    let mut cfgs = configs(thorough);
    if let Some(rp) = &ctx.replay {
        let v: Value = serde_json::from_slice(&std::fs::read(rp).unwrap_or_default()).unwrap_or(Value::Null);
        let want = v["detail"]["config"].as_str().unwrap_or("").to_string();
        if v["detail"]["tsched"].is_object() {
            let template = if want.contains(" T8 ") { "T8" } else { "T7" };
            let jobs = want.split("jobs=").nth(1).and_then(|x| x.split(' ').next()).and_then(|x| x.parse().ok()).unwrap_or(2);
            let c = Cfg { dir: "local", delete: true, exclude: "", jobs, verbose: false, template };
            let vs = crate::e6::replay_local(&c, &["a"], &v["detail"]);
            let mut rep = Report::new("exploration");
            rep.set("evaluations", 2u64).set("distinct_nontrivial", 2u64).set("rule", "replay of one recorded thread schedule, executed twice").set("samples", json!([v["detail"]["tsched"]["choices"]])).set("exhaustive", false);
            finish(ctx, rep, vs);
        }
        cfgs = configs(true).into_iter().chain(configs(false)).filter(|c| cfg_name(c) == want).take(1).collect();
    }
    if let Ok(f) = std::env::var("VH_ONLY") {
        cfgs.retain(|c| cfg_name(c).contains(&f));
    }
    let evals = AtomicU64::new(0);
    let changed = AtomicU64::new(0);
    let mut violations: Vec<Violation> = cfgs
        .par_iter()
        .enumerate()
        .filter_map(|(i, c)| {
            let names = names_for(c);
            let p = prepare(c, &names, &format!("c04-{i}"));
            let out = run_sync(&p.env, c, &[], None);
            if std::env::var("VH_DEBUG").is_ok() {
                eprintln!("== {} => exit {:?}\nSTDOUT:\n{}\nSTDERR:\n{}", cfg_name(c), out.code, out.stdout, out.stderr);
            }
            evals.fetch_add(1, Ordering::Relaxed);
            let (d1, _) = snap(&p.env.dst());
            changed.fetch_add(d1.iter().filter(|(k, e)| p.dst0.0.get(*k) != Some(e)).count() as u64, Ordering::Relaxed);
            c04_oracle(c, &p, &out).map(|(k, m, path)| {
                Violation::new(&k, format!("[{}] exit {:?}: {m}; stderr tail: {}", cfg_name(c), out.code, out.stderr.lines().last().unwrap_or("")), json!({"config": cfg_name(c), "path": path}))
                    .with("direction", json!(c.dir))
                    .with("name_class", json!(name_class(&path)))
            })
        })
        .collect();
    // T6: file-vs-directory clashes must fail with a report and leave everything outside the plan alone
    for dir in ["local", "push", "pull"] {
        let c = Cfg { dir, delete: false, exclude: "", jobs: 2, verbose: false, template: "T6" };
        let p = {
            let env = RunEnv { sc: Scratch::new("c04-t6") };
            for d in ["home", "cwd", "rhome"] {
                let _ = std::fs::create_dir_all(env.sc.path(d));
            }
            put_file(&env.src(), "clash", b"a file in the source", 1_600_000_001, 0);
            put_file(&env.dst(), "clash/inside", b"destination has a directory here", 1_500_000_000, 0);
            put_file(&env.src(), "dirc/f", b"source has a directory here", 1_600_000_002, 0);
            put_file(&env.dst(), "dirc", b"destination has a file here", 1_500_000_001, 0);
            put_file(&env.src(), "fine", b"ok", 1_600_000_003, 0);
            put_file(&env.dst(), "untouched", b"u", 1_500_000_002, 0);
            let (s, d, r) = (snap(&env.src()), snap(&env.dst()), snap(&env.rhome()));
            Prepared { env, src0: s, dst0: d, rhome0: r }
        };
        let out = run_sync(&p.env, &c, &[], None);
        evals.fetch_add(1, Ordering::Relaxed);
        let (d1, _) = snap(&p.env.dst());
        if out.code == Some(0) {
            violations.push(Violation::new("clash_not_reported", format!("[{}] a file-vs-directory clash ended with exit 0", cfg_name(&c)), json!({"config": cfg_name(&c)})).with("direction", json!(dir)));
        } else if out.stderr.trim().is_empty() {
            violations.push(Violation::new("silent_failure", format!("[{}] non-zero exit without a message", cfg_name(&c)), json!({"config": cfg_name(&c)})));
        } else if d1.get("untouched") != p.dst0.0.get("untouched") || d1.get("clash/inside") != p.dst0.0.get("clash/inside") || snap(&p.env.src()) != p.src0 {
            violations.push(Violation::new("failed_run_touched_outside_plan", format!("[{}] a failing run touched files outside the plan", cfg_name(&c)), json!({"config": cfg_name(&c)})));
        } else if d1.get("dirc") != p.dst0.0.get("dirc") {
            // no --delete: the destination FILE that sits where the source has a directory is not in the plan
            // (the plan holds dirc/f) and nothing may remove or replace it
            violations.push(Violation::new("removed_without_delete", format!("[{}] the destination file `dirc` (source has a directory there) was removed or replaced although --delete was not given", cfg_name(&c)), json!({"config": cfg_name(&c)})).with("direction", json!(dir)));
        }
    }
    // one transfer's ssh process dies mid-stream (killed by a signal, or a non-zero exit): the run must
    // report a failure (or, if it exits 0, everything must be right) and touch nothing outside the plan
    for dir in ["push", "pull"] {
        for how in ["KILL", "TERM", "exit255", "exit1"] {
            for nb in [0usize, 4] {
                let c = Cfg { dir, delete: true, exclude: "", jobs: 2, verbose: false, template: "T5" };
                let p = prepare(&c, &names_for(&c), "c04f");
                let mut cmd_env: Vec<(String, String)> = Vec::new();
                cmd_env.push(("VSTANDIN_FAULT".into(), format!("{how}:{nb}:q\\'uote-Z")));
                let out = run_sync_env(&p.env, &c, &[], None, &cmd_env);
                evals.fetch_add(1, Ordering::Relaxed);
                if let Some((k, m, path)) = c04_oracle(&c, &p, &out) {
                    violations.push(Violation::new(&k, format!("[{} with the ssh of one transfer dying ({how} after {nb} bytes)] exit {:?}: {m}", cfg_name(&c), out.code), json!({"config": cfg_name(&c), "path": path, "fault": how})).with("direction", json!(dir)).with("fault", json!(how)));
                } else if out.code == Some(0) {
                    violations.push(Violation::new("fault_not_reported", format!("[{} with the ssh of one transfer dying ({how} after {nb} bytes)] exit 0 although one transfer cannot have completed", cfg_name(&c)), json!({"config": cfg_name(&c), "fault": how})).with("direction", json!(dir)).with("fault", json!(how)));
                }
            }
        }
    }
    // a fault on the REMOTE side of one push while the transport stays healthy (file-size limit on the remote command)
    for (limit, pat) in [(4096usize, "b-A"), (512, "b-A"), (4096, "mkdir"), (512, "a-Z")] {
        let c = Cfg { dir: "push", delete: true, exclude: "", jobs: 1, verbose: false, template: "T10" };
        let p = prepare(&c, &["a"], "c04rf");
        let out = run_sync_env(&p.env, &c, &[], None, &[("VSTANDIN_FAULT".to_string(), format!("fsize:{limit}:{pat}"))]);
        evals.fetch_add(1, Ordering::Relaxed);
        if let Some((k, m, path)) = c04_oracle(&c, &p, &out) {
            violations.push(Violation::new(&k, format!("[{} with the remote command of {pat:?} limited to files of {limit} bytes] exit {:?}: {m}; stderr tail: {}", cfg_name(&c), out.code, out.stderr.lines().last().unwrap_or("")), json!({"config": cfg_name(&c), "path": path, "fault": "remote-fsize"})).with("direction", json!("push")).with("fault", json!("remote-fsize")));
        }
    }
    // completion orders of K parallel transfers over SSH (gate in the stand-in)
    let orders_before = evals.load(Ordering::Relaxed);
    if std::env::var("VH_NO_ORDER").is_err() {
        violations.extend(order_part(thorough, &evals));
    }
    let order_runs = evals.load(Ordering::Relaxed) - orders_before;
    // environment errors: the k-th file-system-mutating (or pipe-writing) libc call of the copia process FAILS
    // (ENOSPC / EIO) instead of running, for EVERY k, in all three directions: a run that exits 0 must still have
    // delivered exactly its plan, a run that reports failure must have touched nothing outside it
    let mut fault_runs = 0u64;
    if std::env::var("VH_NO_IOFAULT").is_err() {
        // (-1 = the chosen write-like call is SHORT — half the bytes — instead of failing: nothing may go wrong at all)
        let errnos: &[i32] = if thorough { &[28, 5, 27, -1] } else { &[28, -1] };
        // second pass: read-side calls (stat, opendir, open for reading, read) fail too (EACCES / EIO)
        let mut jobs: Vec<(&'static str, i32, bool)> = ["local", "pull", "push"].iter().flat_map(|d| errnos.iter().map(move |e| (*d, *e, false))).collect();
        for d in ["local", "pull", "push"] {
            jobs.push((d, 13, true));
            if thorough {
                jobs.push((d, 5, true));
            }
        }
        let res: Vec<(u64, Vec<Violation>)> = jobs
            .par_iter()
            .map(|&(dir, errno, reads)| {
                let c = Cfg { dir, delete: true, exclude: "", jobs: 1, verbose: false, template: "T9" };
                let mut runs = 0u64;
                let mut vs = Vec::new();
                // reference run in log mode: how many mutating calls are there?
                let p0 = prepare(&c, &["a"], "c04io");
                let logp = p0.env.sc.path("shim.log");
                let roots = format!("{}:{}", p0.env.src().display(), p0.env.dst().display());
                let base_env = |mode: &str, k: Option<u64>, logp: &Path| {
                    let mut e = vec![("LD_PRELOAD".to_string(), crate::e3::SHIM.to_string()), ("VSHIM_MODE".to_string(), mode.to_string()), ("VSHIM_ROOT".to_string(), roots.clone()), ("VSHIM_LOG".to_string(), logp.to_string_lossy().into_owned()), ("TOKIO_WORKER_THREADS".to_string(), "1".to_string()), ("VSHIM_COUNT_READS".to_string(), if reads { "1" } else { "0" }.to_string())];
                    if let Some(k) = k {
                        e.push(("VSHIM_FAIL_AT".to_string(), k.to_string()));
                        e.push(("VSHIM_FAIL_ERRNO".to_string(), errno.to_string()));
                    }
                    e
                };
                let out0 = run_sync_env(&p0.env, &c, &[], None, &base_env("log", None, &logp));
                runs += 1;
                if let Some((kind, m, path)) = c04_oracle(&c, &p0, &out0) {
                    // the fault-free run is already wrong: report that, the enumeration has no baseline
                    vs.push(Violation::new(&kind, format!("[{} (fault-free run under the logger)] exit {:?}: {m}", cfg_name(&c), out0.code), json!({"config": cfg_name(&c), "path": path, "io_fault": {"k": 0, "errno": errno}})).with("direction", json!(dir)));
                    return (runs, vs);
                }
                if out0.code != Some(0) {
                    machinery_error(format!("C04 I/O-fault part: the fault-free {dir} run under the logger failed: exit {:?} {}", out0.code, out0.stderr.lines().last().unwrap_or("")));
                }
                let n = std::fs::read_to_string(&logp).map(|t| t.lines().count() as u64).unwrap_or(0);
                if n < 5 {
                    machinery_error(format!("C04 I/O-fault part: only {n} mutating calls logged for {dir}"));
                }
                drop(p0);
                for k in 1..=n {
                    let p = prepare(&c, &["a"], "c04io");
                    // the roots differ per scratch: recompute
                    let roots_k = format!("{}:{}", p.env.src().display(), p.env.dst().display());
                    let logk = p.env.sc.path("shim.log");
                    let mut e = base_env("inject", Some(k), &logk);
                    for kv in e.iter_mut() {
                        if kv.0 == "VSHIM_ROOT" {
                            kv.1 = roots_k.clone();
                        }
                    }
                    let out = run_sync_env(&p.env, &c, &[], None, &e);
                    runs += 1;
                    let failed_call = std::fs::read_to_string(&logk).ok().and_then(|t| t.lines().find(|l| l.ends_with("FAILED")).map(|l| l.split('\t').skip(2).take(2).collect::<Vec<_>>().join(" ")));
                    let Some(failed_call) = failed_call else { continue }; // fewer calls on this path: nothing was injected
                    if let Some((kind, m, path)) = c04_oracle(&c, &p, &out) {
                        vs.push(Violation::new(&kind, format!("[{} with libc call #{k}{} ({}) failing with errno {errno}] exit {:?}: {m}; stderr tail: {}", cfg_name(&c), if reads { " (reads counted)" } else { "" }, failed_call.rsplit('/').next().unwrap_or(""), out.code, out.stderr.lines().last().unwrap_or("")), json!({"config": cfg_name(&c), "path": path, "io_fault": {"k": k, "errno": errno, "reads": reads}})).with("direction", json!(dir)).with("fault", json!("io_error")));
                        if vs.len() >= 2 {
                            break;
                        }
                    }
                }
                (runs, vs)
            })
            .collect();
        for (r, vs) in res {
            fault_runs += r;
            violations.extend(vs);
        }
        evals.fetch_add(fault_runs, Ordering::Relaxed);
    }
    // local direction: every interleaving (within a preemption bound) of the parallel transfers' libc calls,
    // decided by the thread-level scheduler (E6) on the real multi-threaded process
    let mut tsched_rows: Vec<Value> = Vec::new();
    let mut any_tsched_capped = false;
    let mut tsched_schedules = 0u64;
    let mut tsched_steps = 0u64;
    if std::env::var("VH_NO_TSCHED").is_err() {
        // (template, jobs, tokio workers, preemption bound, cap)
        let systems: Vec<(&'static str, usize, usize, u32, u64)> = if thorough {
            vec![("T7", 3, 4, 3, 60_000), ("T7", 2, 1, 3, 60_000), ("T7", 3, 1, 2, 60_000), ("T8", 4, 4, 1, 60_000), ("T8", 2, 1, 2, 60_000), ("T11", 3, 4, 2, 20_000)]
        } else {
            vec![("T7", 3, 4, 1, 3_000), ("T7", 2, 1, 1, 3_000), ("T11", 3, 4, 1, 3_000)]
        };
        for (template, jobs, workers, bound, cap) in systems {
            let c = Cfg { dir: "local", delete: true, exclude: "", jobs, verbose: false, template };
            let out = crate::e6::explore_local(&c, &["a"], bound, workers, cap, 16);
            tsched_schedules += out.schedules;
            tsched_steps += out.steps;
            any_tsched_capped |= out.capped;
            evals.fetch_add(out.schedules, Ordering::Relaxed);
            tsched_rows.push(json!({"config": cfg_name(&c), "tokio_workers": workers, "preemption_bound": bound, "schedules": out.schedules, "capped": out.capped, "scheduling_steps": out.steps, "max_points": out.max_points, "max_simultaneously_announced_calls": out.max_parked, "threads_seen": out.threads, "distinct_outcomes": out.outcomes.len(), "distinct_completion_orders": out.completion_orders.len()}));
            let mut vs = out.violations;
            vs.sort_by_key(|v| v.detail["tsched"]["choices"].as_array().map_or(0, Vec::len));
            violations.extend(vs.into_iter().take(2));
        }
    }
    let mut per: std::collections::HashMap<String, usize> = Default::default();
    violations.retain(|v| {
        let c = per.entry(v.sig.to_string()).or_insert(0);
        *c += 1;
        *c <= 2
    });
    let mut rep = Report::new("exploration");
    rep.set("evaluations", evals.load(Ordering::Relaxed))
        .set("distinct_nontrivial", changed.load(Ordering::Relaxed))
        .set("configurations", cfgs.len() as u64)
        .set("ordered_runs", order_runs)
        .set("io_fault_runs", fault_runs)
        .set("thread_schedules_local", tsched_schedules)
        .set("thread_scheduling_steps_local", tsched_steps)
        .set("thread_level_exploration", Value::Array(tsched_rows))
        .set("rule", "configuration = direction {local, push, pull over the ssh stand-in} x --delete x exclude {none, *.x, 'sk ip'} x --jobs {1,2,4} x --verbose x tree template (19 special names — spaces, quotes, backslash, $, $(…), glob characters, newline, tab, leading dashes, unicode, dot files, ;, & — each in the 4 destination states absent / same size+second / different size / different mtime; the names as directory names; nesting depth 3 with empty files; destination-only, excluded and stale files) ; after each run a full recursive snapshot diff (bytes, ns mtimes, inodes, directories) of source, destination and the remote home is compared with the reference planner's transfer / skip / delete sets and the Plan / Complete lines; plus file-vs-directory clashes and every completion order of K = 3 (and 4) parallel SSH transfers; for the LOCAL direction a thread-level controlled scheduler (interposer mode tsched) parks every thread of the real copia process before each libc call on a path under SRC or DST and all interleavings of the 3 (4) transfers' calls within the stated preemption bound are executed (thread_level_exploration); non-trivial = destination entries that changed, summed")
        .set("samples", json!([{"config":"push T1 delete=true exclude=\"*.x\" jobs=2 verbose=false"},{"config":"pull T3 delete=false exclude=\"\" jobs=4 verbose=false"}]))
        .set("exhaustive", !any_tsched_capped);
    rep.assume("SSH through a stand-in (bash -c with OpenSSH argument joining; remote login shell assumed bash); tmpfs; run as root; mtimes at or after the epoch; names ending .copia-tmp reserved");
    finish(ctx, rep, violations);
}

// ───────────── completion orders ─────────────

fn permutations(n: usize) -> Vec<Vec<usize>> {
    fn rec(cur: &mut Vec<usize>, used: &mut Vec<bool>, out: &mut Vec<Vec<usize>>) {
        if cur.len() == used.len() {
            out.push(cur.clone());
            return;
        }
        for i in 0..used.len() {
            if !used[i] {
                used[i] = true;
                cur.push(i);
                rec(cur, used, out);
                cur.pop();
                used[i] = false;
            }
        }
    }
    let mut out = Vec::new();
    rec(&mut Vec::new(), &mut vec![false; n], &mut out);
    out
}

/// Run one gated sync: the stand-in parks every ssh invocation; non-transfer commands are released at
/// once, transfers are released (and run to completion) in the order `order` once all K are waiting.
fn gated_run(env: &RunEnv, c: &Cfg, k: usize, order: &[usize]) -> CliOut {
    let gate = env.sc.path("gate");
    let _ = std::fs::remove_dir_all(&gate);
    let _ = std::fs::create_dir_all(&gate);
    let stop = std::sync::atomic::AtomicBool::new(false);
    let result = std::thread::scope(|s| {
        let driver = s.spawn(|| {
            let mut transfers: Vec<PathBuf> = Vec::new(); // base ids in arrival (name-sorted) order
            let mut released = 0usize;
            let start = std::time::Instant::now();
            while !stop.load(Ordering::Relaxed) {
                let mut waiting: Vec<(PathBuf, String)> = Vec::new();
                if let Ok(rd) = std::fs::read_dir(&gate) {
                    for e in rd.flatten() {
                        let p = e.path();
                        if p.extension().is_some_and(|x| x == "wait") {
                            let cmd = std::fs::read_to_string(&p).unwrap_or_default();
                            let base = p.to_string_lossy().trim_end_matches(".wait").to_string();
                            waiting.push((PathBuf::from(base), cmd));
                        }
                    }
                }
                for (id, cmd) in waiting {
                    let is_transfer = cmd.starts_with("cat ");
                    let go = PathBuf::from(format!("{}.go", id.display()));
                    if go.exists() {
                        continue;
                    }
                    if !is_transfer {
                        let _ = std::fs::write(&go, b"");
                    } else if !transfers.contains(&id) {
                        transfers.push(id);
                    }
                }
                // all K transfers in flight? release the next one in the requested order and let it finish
                if transfers.len() == k && released < k {
                    // order refers to transfers sorted by their command text (stable across runs)
                    let mut sorted = transfers.clone();
                    sorted.sort_by_key(|id| std::fs::read_to_string(format!("{}.wait", id.display())).unwrap_or_default());
                    let id = &sorted[order[released]];
                    let _ = std::fs::write(format!("{}.go", id.display()), b"");
                    let t0 = std::time::Instant::now();
                    while !PathBuf::from(format!("{}.done", id.display())).exists() && t0.elapsed().as_secs() < 20 && !stop.load(Ordering::Relaxed) {
                        std::thread::sleep(std::time::Duration::from_millis(1));
                    }
                    released += 1;
                }
                if start.elapsed().as_secs() > 60 {
                    break;
                }
                std::thread::sleep(std::time::Duration::from_millis(1));
            }
        });
        let out = run_sync(env, c, &[], Some(&gate));
        stop.store(true, Ordering::Relaxed);
        let _ = driver.join();
        out
    });
    result
}

fn order_part(thorough: bool, evals: &AtomicU64) -> Vec<Violation> {
    let mut jobs: Vec<(&'static str, usize, Vec<usize>)> = Vec::new();
    for dir in ["push", "pull"] {
        for k in if thorough || dir == "push" { vec![3usize, 4] } else { vec![3usize] } {
            for o in permutations(k) {
                jobs.push((dir, k, o));
            }
        }
    }
    jobs.par_iter()
        .enumerate()
        .filter_map(|(i, (dir, k, order))| {
            let c = Cfg { dir, delete: true, exclude: "", jobs: *k, verbose: false, template: "TK" };
            let env = RunEnv { sc: Scratch::new(&format!("c04o{i}")) };
            for d in ["home", "cwd", "rhome"] {
                let _ = std::fs::create_dir_all(env.sc.path(d));
            }
            for j in 0..*k {
                put_file(&env.src(), &format!("file{j}"), format!("content of file {j}").as_bytes(), 1_600_000_000 + j as i64, 0);
                if j % 2 == 0 {
                    put_file(&env.dst(), &format!("file{j}"), b"old", 1_500_000_000, 0);
                }
            }
            put_file(&env.dst(), "stale", b"stale", 1_400_000_000, 0);
            put_file(&env.src(), "insync", b"same", 1_600_000_100, 0);
            put_file(&env.dst(), "insync", b"SAME", 1_600_000_100, 9);
            let p = Prepared { src0: snap(&env.src()), dst0: snap(&env.dst()), rhome0: snap(&env.rhome()), env };
            let out = gated_run(&p.env, &c, *k, order);
            evals.fetch_add(1, Ordering::Relaxed);
            c04_oracle(&c, &p, &out).map(|(kind, m, path)| Violation::new(&kind, format!("[{dir}, {k} parallel transfers completing in order {order:?}] exit {:?}: {m}", out.code), json!({"config": format!("{dir} TK order {order:?}"), "path": path})).with("direction", json!(dir)))
        })
        .collect()
}

// ═════════════════════════ C14 ═════════════════════════

fn second_run_check(c: &Cfg, p: &Prepared) -> Option<(String, String)> {
    let s1 = snap(&p.env.src());
    let d1 = snap(&p.env.dst());
    let out = run_sync(&p.env, c, &[], None);
    let s2 = snap(&p.env.src());
    let d2 = snap(&p.env.dst());
    if out.code != Some(0) {
        return Some(("second_run_fails".into(), format!("second run exits {:?}: {}", out.code, out.stderr.lines().last().unwrap_or(""))));
    }
    let plan = counts("Plan:", &out.stderr);
    let ok_plan = match &plan {
        Some(v) => v.first() == Some(&0) && v.get(2) == Some(&0),
        // no parseable Plan line (the wording is not part of the property): the snapshot comparison below decides
        None => true,
    };
    if !ok_plan {
        return Some(("second_run_resends".into(), format!("second run plans {plan:?} (expected 0 to transfer, 0 to delete)")));
    }
    if let Some(done) = counts("Complete:", &out.stdout) {
        if done.first() != Some(&0) {
            return Some(("second_run_resends".into(), format!("second run reports {done:?}")));
        }
    }
    if s1 != s2 || d1 != d2 {
        let bad = d1.0.keys().chain(d2.0.keys()).find(|k| d1.0.get(*k) != d2.0.get(*k)).cloned().unwrap_or_default();
        return Some(("second_run_changes".into(), format!("the second run changed a tree (bytes, mtime or inode) at {bad:?}")));
    }
    None
}

const SWEEP_TIMES: [(i64, i64); 9] = [(0, 0), (1, 0), (1, 500_000_000), (1_700_000_000, 999_999_999), (2_147_483_647, 0), (2_147_483_648, 1), (4_294_967_301, 0), (253_402_300_799, 0), (1_099_511_627_776, 250_000_000)];

fn sweep(dir: &'static str, names: &[&str], evals: &AtomicU64, nontrivial: &AtomicU64) -> Vec<Violation> {
    let mut out = Vec::new();
    let c = Cfg { dir, delete: false, exclude: "", jobs: 3, verbose: false, template: "sweep" };
    let env = RunEnv { sc: Scratch::new("c14sw") };
    for d in ["home", "cwd", "rhome", "dst"] {
        let _ = std::fs::create_dir_all(env.sc.path(d));
    }
    let big: Vec<u8> = Rng::new(14).bytes(300 * 1024);
    let mut k = 0usize;
    for (ti, (s, ns)) in SWEEP_TIMES.iter().enumerate() {
        for (si, size) in [0usize, 1, 300 * 1024].iter().enumerate() {
            let n = names[k % names.len()];
            k += 1;
            let bytes = if *size > 1 { big.clone() } else { vec![b'q'; *size] };
            put_file(&env.src(), &format!("t{ti}/{n}-{si}"), &bytes, *s, *ns);
        }
    }
    // destination states for the "sent iff absent or size/second differ" rule
    let src_files = snap(&env.src()).0;
    let mut expect_sent = 0u64;
    for (i, (p, e)) in src_files.iter().enumerate() {
        match i % 4 {
            0 => expect_sent += 1, // absent
            1 => {
                // same size, same second, other nanoseconds and other bytes → must NOT be sent
                let other: Vec<u8> = e.bytes.iter().map(|b| b ^ 1).collect();
                put_file(&env.dst(), p, &other, e.secs, (e.nsecs + 1234) % 1_000_000_000);
            }
            2 => {
                // same size, one second off → sent
                let other: Vec<u8> = e.bytes.iter().map(|b| b ^ 1).collect();
                put_file(&env.dst(), p, &other, e.secs + 1, e.nsecs);
                expect_sent += 1;
            }
            _ => {
                // other size, same mtime → sent
                let mut other = e.bytes.clone();
                other.push(b'!');
                put_file(&env.dst(), p, &other, e.secs, e.nsecs);
                expect_sent += 1;
            }
        }
    }
    let p = Prepared { src0: snap(&env.src()), dst0: snap(&env.dst()), rhome0: snap(&env.rhome()), env };
    let o = run_sync(&p.env, &c, &[], None);
    evals.fetch_add(1, Ordering::Relaxed);
    nontrivial.fetch_add(expect_sent, Ordering::Relaxed);
    let det = json!({"config": format!("{dir} timestamp sweep")});
    if let Some((kind, m, path)) = c04_oracle(&c, &p, &o) {
        out.push(Violation::new(&kind, format!("[{dir} timestamp sweep] first run: {m}"), json!({"config": format!("{dir} timestamp sweep"), "path": path})).with("direction", json!(dir)));
        return out;
    }
    let sent = counts("Complete:", &o.stdout).and_then(|v| v.first().copied());
    if sent != Some(expect_sent) {
        out.push(Violation::new("sent_set_wrong", format!("[{dir} timestamp sweep] first run sent {sent:?} files; exactly {expect_sent} are absent or differ in size / whole-second mtime"), det.clone()).with("direction", json!(dir)));
        return out;
    }
    evals.fetch_add(1, Ordering::Relaxed);
    if let Some((k, m)) = second_run_check(&c, &p) {
        out.push(Violation::new(&k, format!("[{dir} timestamp sweep] {m}"), det).with("direction", json!(dir)));
    }
    out
}

pub fn run_c14(ctx: &Ctx) -> ! {
    let thorough = ctx.tier.is_thorough();
    let mut cfgs = configs(thorough);
    if let Ok(f) = std::env::var("VH_ONLY") {
        cfgs.retain(|c| cfg_name(c).contains(&f));
    }
    let evals = AtomicU64::new(0);
    let nontrivial = AtomicU64::new(0);
    let mut violations: Vec<Violation> = cfgs
        .par_iter()
        .enumerate()
        .filter_map(|(i, c)| {
            let p = prepare(c, &names_for(c), &format!("c14-{i}"));
            let out = run_sync(&p.env, c, &[], None);
            evals.fetch_add(1, Ordering::Relaxed);
            if out.code != Some(0) {
                return None; // C04 judges failing first runs
            }
            // C14 speaks about the run after ANY successful (exit 0) run: whether that first run delivered its
            // plan is C04's question and does not excuse a second run that sends or changes something
            nontrivial.fetch_add(1, Ordering::Relaxed);
            evals.fetch_add(1, Ordering::Relaxed);
            second_run_check(c, &p).map(|(k, m)| Violation::new(&k, format!("[{}] {m}", cfg_name(c)), json!({"config": cfg_name(c)})).with("direction", json!(c.dir)))
        })
        .collect();
    let dirs = ["local", "push", "pull"];
    let sv: Vec<Violation> = dirs.par_iter().flat_map_iter(|d| sweep(d, &NAMES, &evals, &nontrivial)).collect();
    violations.extend(sv);
    let mut rep = Report::new("exploration");
    rep.set("evaluations", evals.load(Ordering::Relaxed))
        .set("distinct_nontrivial", nontrivial.load(Ordering::Relaxed))
        .set("configurations", cfgs.len() as u64)
        .set("rule", "every C04 configuration whose first run succeeds is run a SECOND time unchanged: exit 0, plan 0 to transfer / 0 to delete, and source and destination snapshots (bytes, nanosecond mtimes, inodes) identical before and after; plus, per direction, a timestamp sweep: source mtimes {0, 1, 1.5 s, …999999999 ns, 2^31-1, 2^31, 2^32+5, 9999-12-31, 2^40} x sizes {0, 1, 300 KiB} x the 19 special names, against destination states absent / same size+second (other nanoseconds, other bytes) / one second off / other size — the first run must send exactly the files that are absent or differ in size or whole-second mtime, and the second run nothing; non-trivial = configurations reaching the second run + files expected to be sent in the sweeps")
        .set("samples", json!([{"config":"pull T4 delete=true exclude=\"sk ip\" jobs=1 verbose=false","second_run":true},{"config":"push timestamp sweep","mtime":[4294967301i64,0]}]))
        .set("exhaustive", true);
    rep.assume("tmpfs holds every timestamp exactly; run as root (set_local_mtime opens the file for writing); ssh stand-in as in C04");
    finish(ctx, rep, violations);
}

// ═════════════════════════ C15 (CLI half) ═════════════════════════

fn c15_tree(src: &Path, dst: &Path) {
    let mut names = crate::c19::name_universe();
    // non-ASCII names: `?` stands for one CHARACTER
    names.extend(["é".to_string(), "é.".to_string(), "日a".to_string()]);
    let mut i = 0i64;
    // a directory that exists ONLY on the destination: stale files next to files an exclude may protect
    for n in &names {
        i += 1;
        put_file(dst, &format!("old/{n}"), b"destination only, in a destination-only directory", 1_450_000_000 + i, 0);
    }
    put_file(dst, "old/zz-stale", b"stale", 1_450_000_000, 0);
    for prefix in ["", "d/"] {
        for (k, n) in names.iter().enumerate() {
            i += 1;
            let rel = format!("{prefix}{n}");
            match k % 3 {
                0 => put_file(src, &rel, b"source only", 1_600_000_000 + i, 0),
                1 => put_file(dst, &rel, b"destination only", 1_500_000_000 + i, 0),
                _ => {
                    put_file(src, &rel, b"source version", 1_600_000_000 + i, 0);
                    put_file(dst, &rel, b"destination version (differs)", 1_500_000_000 + i, 0);
                }
            }
        }
    }
}

pub fn c15_cli_part(thorough: bool, evals: &AtomicU64, nontrivial: &AtomicU64) -> Vec<Violation> {
    let pats = ["a", "*", "?", "a*", "*a", "?.", "d", "d/", "d/a", "d/*", "*/a", "."];
    let mut lists: Vec<Vec<&str>> = pats.iter().map(|p| vec![*p]).collect();
    if thorough {
        for p in pats {
            for q in pats {
                if p != q {
                    lists.push(vec![p, q]);
                }
            }
        }
    } else {
        for (p, q) in [("a", "d/*"), ("?", "*/a"), ("*a", "d/"), (".", "a*")] {
            lists.push(vec![p, q]);
        }
    }
    let mut jobs = Vec::new();
    for dir in ["local", "push", "pull"] {
        for l in &lists {
            for delete in [false, true] {
                jobs.push((dir, l.clone(), delete));
            }
        }
    }
    let mut out: Vec<Violation> = jobs
        .par_iter()
        .enumerate()
        .filter_map(|(i, (dir, list, delete))| {
            let env = RunEnv { sc: Scratch::new(&format!("c15-{i}")) };
            for d in ["home", "cwd", "rhome"] {
                let _ = std::fs::create_dir_all(env.sc.path(d));
            }
            c15_tree(&env.src(), &env.dst());
            let p = Prepared { src0: snap(&env.src()), dst0: snap(&env.dst()), rhome0: snap(&env.rhome()), env };
            let c = Cfg { dir, delete: *delete, exclude: "", jobs: 2, verbose: false, template: "c15" };
            let mut extra: Vec<&str> = Vec::new();
            for pat in list {
                extra.push("--exclude");
                extra.push(pat);
            }
            let o = run_sync(&p.env, &c, &extra, None);
            evals.fetch_add(1, Ordering::Relaxed);
            let (d1, _) = snap(&p.env.dst());
            let ex: Vec<String> = list.iter().map(|s| (*s).to_string()).collect();
            let det = json!({"part":"cli_excludes","direction":dir,"excludes":list,"delete":delete});
            let all: BTreeSet<&String> = p.dst0.0.keys().chain(d1.keys()).chain(p.src0.0.keys()).collect();
            for k in all {
                if ref_excluded(k, &ex) {
                    nontrivial.fetch_add(1, Ordering::Relaxed);
                    if p.dst0.0.get(k) != d1.get(k) {
                        return Some(Violation::new("excluded_path_touched", format!("[{dir} excludes {list:?} delete={delete}] destination path {k:?} matches an exclude pattern but was {}", if d1.contains_key(k) { if p.dst0.0.contains_key(k) { "modified" } else { "created" } } else { "removed" }), det).with("direction", json!(dir)));
                    }
                }
            }
            if !delete {
                if let Some(k) = p.dst0.0.keys().find(|k| !d1.contains_key(*k)) {
                    return Some(Violation::new("removed_without_delete", format!("[{dir} excludes {list:?}] destination {k:?} was removed although --delete was not given"), det).with("direction", json!(dir)));
                }
            }
            if o.code != Some(0) {
                return Some(Violation::new("run_failed", format!("[{dir} excludes {list:?} delete={delete}] exit {:?}: {}", o.code, o.stderr.lines().last().unwrap_or("")), det));
            }
            // and the complete plan oracle with these excludes
            let (wt, _, wd) = ref_plan(&meta_of(&p.src0.0), &meta_of(&p.dst0.0), &ex, *delete);
            for t in &wt {
                if d1.get(t).map(|e| &e.bytes) != p.src0.0.get(t).map(|e| &e.bytes) {
                    return Some(Violation::new("transfer_missing", format!("[{dir} excludes {list:?}] {t:?} is not excluded and should have been transferred"), det));
                }
            }
            for t in &wd {
                if d1.contains_key(t) {
                    return Some(Violation::new("delete_not_applied", format!("[{dir} excludes {list:?}] {t:?} should have been deleted"), det));
                }
            }
            None
        })
        .collect();
    // a source FILE where the destination has a DIRECTORY that holds an excluded file: whatever the run does
    // about the clash (it may fail), the excluded file must survive, with and without --delete
    for dir in ["local", "push", "pull"] {
        for delete in [false, true] {
            let env = RunEnv { sc: Scratch::new("c15clash") };
            for d in ["home", "cwd", "rhome"] {
                let _ = std::fs::create_dir_all(env.sc.path(d));
            }
            put_file(&env.src(), "c", b"now a file", 1_600_000_001, 0);
            put_file(&env.src(), "other", b"o", 1_600_000_002, 0);
            put_file(&env.dst(), "c/notes.log", b"excluded, must survive", 1_500_000_001, 0);
            put_file(&env.dst(), "c/stale", b"stale", 1_500_000_002, 0);
            put_file(&env.dst(), "keep.log", b"excluded at top level", 1_500_000_003, 0);
            let p = Prepared { src0: snap(&env.src()), dst0: snap(&env.dst()), rhome0: snap(&env.rhome()), env };
            let c = Cfg { dir, delete, exclude: "*.log", jobs: 2, verbose: false, template: "clash" };
            let _o = run_sync(&p.env, &c, &[], None);
            evals.fetch_add(1, Ordering::Relaxed);
            let (d1, _) = snap(&p.env.dst());
            for k in ["c/notes.log", "keep.log"] {
                if d1.get(k) != p.dst0.0.get(k) {
                    out.push(Violation::new("excluded_path_touched", format!("[{dir} delete={delete} exclude *.log, source file `c` vs destination directory `c/`] excluded destination path {k:?} was modified or removed"), json!({"part":"cli_excludes_clash","direction":dir,"delete":delete})).with("direction", json!(dir)));
                }
            }
        }
    }
    // the reverse clash: the destination has a FILE where the source has a DIRECTORY; the file is protected by a
    // whole-path pattern that does not match the source file beneath it. Whatever the run does (it may fail), the
    // excluded destination file must survive, with and without --delete, and a dry run must not announce less
    // than the real run does
    for dir in ["local", "push", "pull"] {
        for delete in [false, true] {
            let env = RunEnv { sc: Scratch::new("c15clash2") };
            for d in ["home", "cwd", "rhome"] {
                let _ = std::fs::create_dir_all(env.sc.path(d));
            }
            put_file(&env.src(), "pkg/cache/idx", b"index", 1_600_000_001, 0);
            put_file(&env.src(), "other", b"o", 1_600_000_002, 0);
            put_file(&env.dst(), "pkg/cache", b"a FILE, excluded by its whole path", 1_500_000_001, 0);
            put_file(&env.dst(), "pkg/keep", b"k", 1_500_000_002, 0);
            let pats = vec!["pkg/cache".to_string()];
            if !crate::c19::ref_excluded("pkg/cache", &pats) || crate::c19::ref_excluded("pkg/cache/idx", &pats) {
                continue; // the reference matcher does not separate the two paths: nothing to check
            }
            let p = Prepared { src0: snap(&env.src()), dst0: snap(&env.dst()), rhome0: snap(&env.rhome()), env };
            let c = Cfg { dir, delete, exclude: "pkg/cache", jobs: 2, verbose: false, template: "clash2" };
            let _o = run_sync(&p.env, &c, &[], None);
            evals.fetch_add(1, Ordering::Relaxed);
            let (d1, _) = snap(&p.env.dst());
            if d1.get("pkg/cache") != p.dst0.0.get("pkg/cache") {
                out.push(Violation::new("excluded_path_touched", format!("[{dir} delete={delete} exclude pkg/cache, destination file `pkg/cache` vs source directory `pkg/cache/`] the excluded destination file was modified, removed or replaced by a directory"), json!({"part":"cli_excludes_clash2","direction":dir,"delete":delete})).with("direction", json!(dir)));
            }
            if !delete && d1.get("pkg/keep") != p.dst0.0.get("pkg/keep") {
                out.push(Violation::new("removed_without_delete", format!("[{dir} exclude pkg/cache] destination-only file pkg/keep changed without --delete"), json!({"part":"cli_excludes_clash2","direction":dir,"delete":delete})).with("direction", json!(dir)));
            }
        }
    }
    // dry runs: every (quick) C04 configuration first with --dry-run
    let cfgs = configs(thorough);
    let dv: Vec<Violation> = cfgs
        .par_iter()
        .enumerate()
        .filter_map(|(i, c)| {
            let p = prepare(c, &names_for(c), &format!("c15d-{i}"));
            let o = run_sync(&p.env, c, &["--dry-run"], None);
            evals.fetch_add(1, Ordering::Relaxed);
            let det = json!({"part":"cli_dry_run","config":cfg_name(c)});
            if snap(&p.env.src()) != p.src0 || snap(&p.env.dst()) != p.dst0 || snap(&p.env.rhome()) != p.rhome0 {
                return Some(Violation::new("dry_run_mutates", format!("[{}] --dry-run changed a file, an mtime or a directory", cfg_name(c)), det).with("direction", json!(c.dir)));
            }
            if o.code != Some(0) {
                return Some(Violation::new("dry_run_failed", format!("[{}] --dry-run exits {:?}", cfg_name(c), o.code), det));
            }
            // the printed actions; names with a newline print over two lines, so compare as one text blob
            let printed: String = o.stdout.lines().filter(|l| !l.starts_with("(dry run)")).collect::<Vec<_>>().join("\n");
            let real = run_sync(&p.env, c, &[], None);
            evals.fetch_add(1, Ordering::Relaxed);
            nontrivial.fetch_add(1, Ordering::Relaxed);
            if real.code != Some(0) {
                return None; // a failing real run is C04's subject
            }
            let (d1, _) = snap(&p.env.dst());
            let mut want = String::new();
            let mut sent: Vec<&String> = d1.iter().filter(|(k, e)| p.dst0.0.get(*k).map_or(true, |e0| e0.ino != e.ino || e0.bytes != e.bytes)).map(|(k, _)| k).collect();
            sent.sort_by_key(|k| PathBuf::from(k));
            for k in sent {
                want.push_str(&format!("send   {k}\n"));
            }
            let mut gone: Vec<&String> = p.dst0.0.keys().filter(|k| !d1.contains_key(*k)).collect();
            gone.sort_by_key(|k| PathBuf::from(k));
            for k in gone {
                want.push_str(&format!("delete {k}\n"));
            }
            if printed.trim_end() != want.trim_end() {
                return Some(Violation::new("dry_run_differs", format!("[{}] --dry-run printed {} action line(s) that differ from what the real run did ({} line(s))", cfg_name(c), printed.lines().count(), want.lines().count()), det).with("direction", json!(c.dir)));
            }
            None
        })
        .collect();
    out.extend(dv);
    out
}
