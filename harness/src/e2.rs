//! E2 — explicit-state model checking of bisync histories. Every `bisync` transition
//! executes the real `bidir::run_bisync` (in a worker process, in-process call) on a
//! materialised pre-state; C02 / C06 / C07 / C15 each run their own oracle over the graph.

use crate::common::*;
use serde::{Deserialize, Serialize};
use serde_json::{json, Value};
use std::collections::{BTreeMap, BTreeSet, HashSet};
use std::io::{BufRead, BufReader, Write};
use std::path::{Path, PathBuf};
use std::sync::Mutex;
use rayon::prelude::*;

pub type Tree = BTreeMap<String, u8>;

#[derive(Clone, Debug, Serialize, Deserialize, PartialEq, Eq, Hash, PartialOrd, Ord)]
pub struct State {
    pub a: Tree,
    pub b: Tree,
    /// archive entries as they exist on disk (None = no loadable archive)
    pub r: Option<Tree>,
    /// oracle memory: the tree both sides held at the end of the last completed run
    pub s: Tree,
    pub runs: u8,
    pub ops: u8,
}

#[derive(Clone, Debug, Serialize, Deserialize)]
struct Job {
    mode: String,
    state: State,
    cli: bool,
    full_trunc: bool,
}

#[derive(Clone, Debug, Serialize, Deserialize, Default)]
struct JobOut {
    post_a: Tree,
    post_b: Tree,
    post_r: Option<Tree>,
    result: String,
    violations: Vec<(String, String, Value)>, // (kind, summary, extra sig/detail)
    runs_executed: u64,
    cli_validated: u64,
    fault_runs: u64,
}

const HOST: &str = "vhost";

pub fn contents() -> Vec<Vec<u8>> {
    // one empty content, and two of EQUAL length (a same-size edit must still be seen as a change);
    // one of the two is searched so that its BLAKE3 starts with a zero hex digit (names derived from
    // hashes must keep leading zeros)
    static C: std::sync::OnceLock<Vec<Vec<u8>>> = std::sync::OnceLock::new();
    C.get_or_init(|| {
        let mut z: Vec<u8> = Vec::new();
        for i in 0u32.. {
            let cand = format!("v{i:06}\n").into_bytes();
            if blake3::hash(&cand).as_bytes()[0] < 0x10 {
                z = cand;
                break;
            }
        }
        let mut c: Vec<Vec<u8>> = vec![b"".to_vec(), z, b"V-other\n".to_vec()];
        c.sort_by_key(|x| *blake3::hash(x).as_bytes());
        c
    })
    .clone()
}
fn content_id(bytes: &[u8]) -> u8 {
    contents().iter().position(|c| c == bytes).map_or(255, |i| i as u8 + 1)
}
pub fn hash_of(id: u8) -> [u8; 32] {
    *blake3::hash(&contents()[(id - 1) as usize]).as_bytes()
}
fn id_of_hash(h: &[u8]) -> u8 {
    (1..=3u8).find(|&i| hash_of(i)[..] == *h).unwrap_or(255)
}
fn short12(id: u8) -> String {
    hex(&hash_of(id)[..6])
}
fn conflict_name(p: &str, loser: u8) -> String {
    format!("{p}.conflict-{HOST}-{}", short12(loser))
}

// ───────────────────────── worker ─────────────────────────

struct Worker {
    root: PathBuf,
    a: PathBuf,
    b: PathBuf,
    home: PathBuf,
    cap: PathBuf,
}

impl Worker {
    fn wipe(&self) {
        for d in [&self.a, &self.b, &self.home] {
            let _ = std::fs::remove_dir_all(d);
            let _ = std::fs::create_dir_all(d);
        }
    }
    fn write_tree(&self, root: &Path, t: &Tree, mtime: Option<i64>) {
        for (p, id) in t {
            let full = root.join(p);
            if let Some(d) = full.parent() {
                let _ = std::fs::create_dir_all(d);
            }
            if std::fs::write(&full, &contents()[(*id - 1) as usize]).is_err() {
                machinery_error(format!("cannot write {}", full.display()));
            }
            if let Some(m) = mtime {
                crate::c19::set_mtime(&full, m, 0);
            }
        }
    }
    fn archive_file(&self, first: &Path, second: &Path) -> PathBuf {
        let pair = crate::archive::root_pair_hash(first, second);
        self.home.join(".copia").join("archive").join(format!("{pair}.json"))
    }
    fn archive_json(&self, first: &Path, second: &Path, r: &Tree, pair_override: Option<&str>, version: u32) -> Vec<u8> {
        let pair = pair_override.map_or_else(|| crate::archive::root_pair_hash(first, second), str::to_string);
        let mut entries = serde_json::Map::new();
        for (p, id) in r {
            entries.insert(p.clone(), json!({"blake3": hash_of(*id).to_vec(), "ftype": "File"}));
        }
        serde_json::to_vec_pretty(&json!({"format_version": version, "root_pair_hash": pair, "epoch": 4, "host_id": HOST, "entries": entries})).unwrap_or_default()
    }
    fn materialise(&self, st: &State, swap: bool, mt_a: Option<i64>, mt_b: Option<i64>) {
        self.wipe();
        self.write_tree(&self.a, &st.a, mt_a);
        self.write_tree(&self.b, &st.b, mt_b);
        if let Some(r) = &st.r {
            let (f, s) = if swap { (&self.b, &self.a) } else { (&self.a, &self.b) };
            let ap = self.archive_file(f, s);
            let _ = std::fs::create_dir_all(ap.parent().unwrap_or(&self.home));
            let _ = std::fs::write(&ap, self.archive_json(f, s, r, None, 1));
        }
    }
    /// path -> (content id, mtime ns)
    fn snapshot(&self, root: &Path) -> BTreeMap<String, (u8, i128)> {
        let mut out = BTreeMap::new();
        let mut stack = vec![root.to_path_buf()];
        while let Some(d) = stack.pop() {
            let Ok(rd) = std::fs::read_dir(&d) else { continue };
            for e in rd.flatten() {
                let p = e.path();
                let Ok(md) = std::fs::symlink_metadata(&p) else { continue };
                if md.is_dir() {
                    stack.push(p);
                } else {
                    let rel = p.strip_prefix(root).map(|x| x.to_string_lossy().into_owned()).unwrap_or_default();
                    let bytes = std::fs::read(&p).unwrap_or_default();
                    use std::os::unix::fs::MetadataExt;
                    out.insert(rel, (content_id(&bytes), i128::from(md.mtime()) * 1_000_000_000 + i128::from(md.mtime_nsec())));
                }
            }
        }
        out
    }
    fn tree_of(s: &BTreeMap<String, (u8, i128)>) -> Tree {
        s.iter().map(|(k, v)| (k.clone(), v.0)).collect()
    }
    /// Parse the archive file independently of the code's struct.
    fn read_archive(&self, first: &Path, second: &Path) -> Result<Option<(Tree, Value)>, String> {
        let ap = self.archive_file(first, second);
        let Ok(bytes) = std::fs::read(&ap) else { return Ok(None) };
        let v: Value = serde_json::from_slice(&bytes).map_err(|e| format!("archive does not parse: {e}"))?;
        let mut t = Tree::new();
        let Some(ent) = v["entries"].as_object() else { return Err("archive has no entries object".into()) };
        for (p, fp) in ent {
            let h: Vec<u8> = fp["blake3"].as_array().map(|a| a.iter().filter_map(|x| x.as_u64().map(|n| n as u8)).collect()).unwrap_or_default();
            if fp["ftype"] != "File" {
                return Err(format!("archive entry {p} is not a File"));
            }
            t.insert(p.clone(), id_of_hash(&h));
        }
        Ok(Some((t, v)))
    }
    fn home_listing(&self) -> Vec<(String, Vec<u8>, i128)> {
        let mut out = Vec::new();
        let mut stack = vec![self.home.clone()];
        while let Some(d) = stack.pop() {
            let Ok(rd) = std::fs::read_dir(&d) else { continue };
            for e in rd.flatten() {
                let p = e.path();
                let Ok(md) = std::fs::symlink_metadata(&p) else { continue };
                use std::os::unix::fs::MetadataExt;
                if md.is_dir() {
                    out.push((p.to_string_lossy().into_owned(), Vec::new(), 0));
                    stack.push(p);
                } else {
                    out.push((p.to_string_lossy().into_owned(), std::fs::read(&p).unwrap_or_default(), i128::from(md.mtime()) * 1_000_000_000 + i128::from(md.mtime_nsec())));
                }
            }
        }
        out.sort();
        out
    }
    /// Run the real run_bisync in-process; returns (result string, captured stdout+stderr).
    fn run(&self, first: &Path, second: &Path, dry: bool) -> (String, String) {
        let _ = std::fs::write(&self.cap, b"");
        let opts = crate::bidir::BidirOptions { dry_run: dry, verbose: false };
        let r = catch(std::panic::AssertUnwindSafe(|| crate::bidir::run_bisync(first, second, &opts).map_err(|e| e.to_string())));
        let _ = std::io::stdout().flush();
        let _ = std::io::stderr().flush();
        let out = String::from_utf8_lossy(&std::fs::read(&self.cap).unwrap_or_default()).into_owned();
        let res = match r {
            Ok(Ok(())) => "ok".to_string(),
            Ok(Err(e)) if e.contains("had conflicts") => "conflicts".to_string(),
            Ok(Err(e)) => format!("error: {e}"),
            Err(p) => format!("panic: {p}"),
        };
        (res, out)
    }
    fn run_cli(&self, first: &Path, second: &Path, dry: bool) -> (Option<i32>, String, String) {
        let mut c = std::process::Command::new(cli_bin());
        c.arg("bisync");
        if dry {
            c.arg("--dry-run");
        }
        let o = c.arg(first).arg(second).env("HOME", &self.home).env("HOSTNAME", HOST).env("RUST_LOG", "off").output().unwrap_or_else(|e| machinery_error(format!("spawn copia: {e}")));
        (o.status.code(), String::from_utf8_lossy(&o.stdout).into_owned(), String::from_utf8_lossy(&o.stderr).into_owned())
    }
}

fn plan_count(out: &str) -> Option<u64> {
    out.lines().find_map(|l| l.strip_prefix("Bidirectional plan: ")).and_then(|r| r.split_whitespace().next()).and_then(|n| n.parse().ok())
}

/// `(<Action> <path>)` lines of a dry run.
fn dry_lines(out: &str) -> Vec<(String, String)> {
    out.lines()
        .filter(|l| !l.starts_with("Bidirectional") && !l.starts_with("(dry run)") && !l.starts_with("No trusted"))
        .filter_map(|l| {
            // `{:<22} {}`: the action (no spaces) padded to 22 columns, one space, the path verbatim
            let act = l.split(' ').next()?.to_string();
            if act.is_empty() {
                return None;
            }
            let start = act.len().max(22) + 1;
            Some((act, l.get(start..)?.to_string()))
        })
        .collect()
}

/// Is version (p, c) of a pre-run side still present (at p or a conflict-copy of p) in `t`?
fn survives(t: &Tree, p: &str, c: u8) -> bool {
    t.get(p) == Some(&c) || t.iter().any(|(q, &qc)| qc == c && q.starts_with(&format!("{p}.conflict-")))
}

/// Known-finding class D7 — the conflict-copy name N that this run computes for a divergent path q is
/// itself a path in use (present on a side or recorded), so the unconditional copy to N collides with N's
/// own content or N's own pending plan action. Two shapes of loss belong to it:
///  (i)  the lost version is the OCCUPANT of N (other content than the loser);
///  (ii) the lost version is the LOSER of q itself, because N's own planned action (delete / propagate,
///       decided from the scan taken before the copy) then removes or overwrites the fresh conflict-copy.
fn collision(st: &State, trusted: bool, p: &str, c: u8) -> bool {
    divergent(st, trusted).iter().any(|(q, _, l)| {
        let n = conflict_name(q, *l);
        let n_in_use = st.a.contains_key(&n) || st.b.contains_key(&n) || st.r.as_ref().is_some_and(|r| r.contains_key(&n));
        (n == p && *l != c) || (n_in_use && q == p && *l == c)
    })
}

/// C02 oracle on one transition.
fn c02_oracle(st: &State, pa: &Tree, pb: &Tree, out: &mut Vec<(String, String, Value)>) {
    for (side, me, other) in [("A", &st.a, &st.b), ("B", &st.b, &st.a)] {
        for (p, &c) in me {
            let may_vanish = st.s.get(p) == Some(&c) && other.get(p) != Some(&c);
            if may_vanish {
                continue;
            }
            for (post_name, post) in [("A", pa), ("B", pb)] {
                if !survives(post, p, c) {
                    // classify for known-finding signatures
                    let stale = st.r.as_ref().is_some_and(|r| r.get(p) == Some(&c)) && st.s.get(p) != Some(&c);
                    let collision = collision(st, st.r.is_some(), p, c);
                    let cause = if collision { "conflict_name_collision" } else if stale { "stale_archive_entry" } else { "other" };
                    out.push((
                        "version_lost".into(),
                        format!("version {p}=c{c} present on side {side} before the run is gone from side {post_name} afterwards (cause class: {cause})"),
                        json!({"cause": cause, "path": p, "content": c, "side": side}),
                    ));
                    return;
                }
            }
        }
    }
    for (n, t) in [("A", pa), ("B", pb)] {
        if let Some((p, _)) = t.iter().find(|(_, &c)| c == 255) {
            out.push(("foreign_bytes".into(), format!("side {n} holds bytes at {p} that no side ever held"), json!({"path": p})));
            return;
        }
    }
}

/// Expected resolution of divergent edits (C06 e / C07): returns (path, winner, loser).
fn divergent(st: &State, trusted: bool) -> Vec<(String, u8, u8)> {
    let mut v = Vec::new();
    for (p, &ca) in &st.a {
        if let Some(&cb) = st.b.get(p) {
            if ca != cb {
                let base = if trusted { st.s.get(p).copied() } else { None };
                if base != Some(ca) && base != Some(cb) {
                    v.push((p.clone(), ca.max(cb), ca.min(cb)));
                }
            }
        }
    }
    v
}

fn check_divergent(st: &State, trusted: bool, pa: &Tree, pb: &Tree, out: &mut Vec<(String, String, Value)>) {
    let div = divergent(st, trusted);
    // a conflict-copy name may itself be a live divergent path or be claimed twice; those corners belong to C02
    let names: Vec<String> = div.iter().map(|(p, _, l)| conflict_name(p, *l)).collect();
    for (i, (p, w, l)) in div.iter().enumerate() {
        let cn = &names[i];
        let contested = st.a.contains_key(cn) || st.b.contains_key(cn) || names.iter().filter(|n| *n == cn).count() > 1;
        for (n, t) in [("A", pa), ("B", pb)] {
            if t.get(p) != Some(w) {
                if !contested {
                    out.push(("conflict_resolution".into(), format!("divergent {p}: side {n} ends with {:?}, expected the greater-BLAKE3 version c{w}", t.get(p)), json!({"path": p})));
                    return;
                }
            }
            if t.get(cn) != Some(l) && !contested {
                out.push(("conflict_resolution".into(), format!("divergent {p}: loser c{l} not at {cn} on side {n} (found {:?})", t.get(cn)), json!({"path": p})));
                return;
            }
        }
    }
}

/// Reference effect model for dry-run lines (C15).
fn apply_plan(st: &State, lines: &[(String, String)]) -> Result<(Tree, Tree), String> {
    let (mut a, mut b) = (st.a.clone(), st.b.clone());
    for (act, p) in lines {
        match act.as_str() {
            "PropagateAtoB" => {
                let c = *st.a.get(p).ok_or_else(|| format!("PropagateAtoB {p}: A lacks it"))?;
                b.insert(p.clone(), c);
            }
            "PropagateBtoA" => {
                let c = *st.b.get(p).ok_or_else(|| format!("PropagateBtoA {p}: B lacks it"))?;
                a.insert(p.clone(), c);
            }
            "DeleteA" => {
                a.remove(p);
            }
            "DeleteB" => {
                b.remove(p);
            }
            "ConvergeIdentical" => {}
            "Conflict(DeleteVsModify)" => {
                if let Some(&c) = st.a.get(p) {
                    b.insert(p.clone(), c);
                } else if let Some(&c) = st.b.get(p) {
                    a.insert(p.clone(), c);
                }
            }
            "Conflict(BothChanged)" => {
                let (ca, cb) = (*st.a.get(p).ok_or("BothChanged: A lacks")?, *st.b.get(p).ok_or("BothChanged: B lacks")?);
                let (w, l) = (ca.max(cb), ca.min(cb));
                // the conflict-copy never lands on a name that is in use (other content there, or the name's
                // own action in this plan deletes / conflicts): numbered variants "-2", "-3", … are used instead
                let base = conflict_name(p, l);
                let in_use = |n: &String| {
                    let other = [&st.a, &st.b].iter().any(|m| m.get(n).is_some_and(|c| *c != l));
                    let harmful = lines.iter().any(|(act, q)| q == n && !matches!(act.as_str(), "PropagateAtoB" | "PropagateBtoA" | "ConvergeIdentical"));
                    other || harmful
                };
                let mut cn = base.clone();
                let mut k = 1;
                while in_use(&cn) {
                    k += 1;
                    cn = format!("{base}-{k}");
                }
                a.insert(cn.clone(), l);
                b.insert(cn, l);
                a.insert(p.clone(), w);
                b.insert(p.clone(), w);
            }
            other => return Err(format!("unknown action line {other:?}")),
        }
    }
    Ok((a, b))
}

/// A parseable archive of THIS pair that records every file present on either side at its current hash
/// (`prefer_a`: side A's version where the sides differ): trusting it turns every one-sided file into a delete.
fn adversarial_archive(w: &Worker, st: &State, prefer_a: bool) -> Vec<u8> {
    let (first, second) = if prefer_a { (&st.a, &st.b) } else { (&st.b, &st.a) };
    let mut t = first.clone();
    for (p, c) in second {
        t.entry(p.clone()).or_insert(*c);
    }
    w.archive_json(&w.a, &w.b, &t, None, 1)
}

fn fault_menu(w: &Worker, st: &State, full_trunc: bool) -> Vec<(String, Option<Vec<u8>>, bool)> {
    // (name, archive file bytes or None = absent, also leave .bak/.tmp)
    let valid = st.r.as_ref().map(|r| w.archive_json(&w.a, &w.b, r, None, 1)).unwrap_or_default();
    let mut m: Vec<(String, Option<Vec<u8>>, bool)> = Vec::new();
    m.push(("absent".into(), None, false));
    m.push(("zero-length".into(), Some(Vec::new()), false));
    if !valid.is_empty() {
        let ts: Vec<usize> = if full_trunc { (1..valid.len()).collect() } else { vec![1, valid.len() / 2, valid.len() - 1] };
        for t in ts {
            m.push((format!("truncated@{t}"), Some(valid[..t].to_vec()), false));
        }
        m.push(("only-bak-tmp".into(), None, true));
    }
    m.push(("garbage-random".into(), Some(Rng::new(7).bytes(300)), false));
    for g in ["null", "[]", "\"x\"", "{}", "12"] {
        m.push((format!("garbage-{g}"), Some(g.as_bytes().to_vec()), false));
    }
    // adversarial entries: every currently present file at its current hash
    let mut adv_a = st.a.clone();
    for (p, c) in &st.b {
        adv_a.entry(p.clone()).or_insert(*c);
    }
    let mut adv_b = st.b.clone();
    for (p, c) in &st.a {
        adv_b.entry(p.clone()).or_insert(*c);
    }
    let pair = crate::archive::root_pair_hash(&w.a, &w.b);
    let mk = |t: &Tree, pair: &str, ver: u32| w.archive_json(&w.a, &w.b, t, Some(pair), ver);
    for (n, t) in [("A", &adv_a), ("B", &adv_b)] {
        m.push((format!("foreign-pair-adv{n}"), Some(mk(t, "00ffee00ffee00ffee00ffee00ffee00ffee00ffee00ffee00ffee00ffee00ffee", 1)), false));
        m.push((format!("foreign-swapped-pair-adv{n}"), Some(mk(t, &crate::archive::root_pair_hash(&w.b, &w.a), 1)), false));
        m.push((format!("format_version-0-adv{n}"), Some(mk(t, &pair, 0)), false));
        m.push((format!("format_version-2-adv{n}"), Some(mk(t, &pair, 2)), false));
    }
    // garbage confined to ONE JSON string of an otherwise valid, same-pair, adversarial archive: two bytes that can
    // never occur in UTF-8 (FF FE) written over the first and over a middle byte of every string (keys and values)
    for (n, t) in [("A", &adv_a), ("B", &adv_b)] {
        let good = mk(t, &pair, 1);
        let mut ranges: Vec<(usize, usize)> = Vec::new();
        let mut i = 0;
        while i < good.len() {
            if good[i] == b'"' {
                let mut j = i + 1;
                while j < good.len() && good[j] != b'"' {
                    if good[j] == b'\\' {
                        j += 1;
                    }
                    j += 1;
                }
                if j > i + 2 {
                    ranges.push((i + 1, j));
                }
                i = j + 1;
            } else {
                i += 1;
            }
        }
        for (k, (lo, hi)) in ranges.iter().enumerate() {
            for off in [*lo, (*lo + *hi) / 2 - 1] {
                if off + 2 <= *hi {
                    let mut g = good.clone();
                    g[off] = 0xFF;
                    g[off + 1] = 0xFE;
                    m.push((format!("string-garbage-adv{n}-s{k}@{off}"), Some(g), false));
                }
            }
        }
    }
    // a damaged primary NEXT TO a parseable `.bak` of the same pair that records every present file (an older
    // generation left by save()): the damage must still mean "no base", the backup must not be promoted silently
    for (n, t) in [("A", &adv_a), ("B", &adv_b)] {
        let bak = mk(t, &pair, 1);
        for (dn, dmg) in [("zero-length", Vec::new()), ("truncated-half", bak[..bak.len() / 2].to_vec()), ("garbage", Rng::new(11).bytes(200)), ("wrong-shape", b"{}".to_vec())] {
            m.push((format!("{dn}-primary+adv{n}-bak"), Some(dmg), false));
        }
    }
    // the pair was once synced with the roots named in the OTHER order: a parseable adversarial archive sits under
    // the (B, A) file name while the (A, B) one is absent or damaged — it belongs to a different pair and must not be used
    for n in ["A", "B"] {
        m.push((format!("swapped-file-adv{n}+absent"), None, false));
        m.push((format!("swapped-file-adv{n}+zero-length"), Some(Vec::new()), false));
    }
    // wrong shape: valid JSON objects with fields missing or mistyped
    let ent = |t: &Tree| -> Value { t.iter().map(|(p, id)| (p.clone(), json!({"blake3": hash_of(*id).to_vec(), "ftype": "File"}))).collect::<serde_json::Map<_, _>>().into() };
    let shapes = vec![
        json!({"format_version": 1, "root_pair_hash": pair, "epoch": 1, "host_id": HOST}),
        json!({"format_version": 1, "root_pair_hash": pair, "epoch": 1, "entries": ent(&adv_a)}),
        json!({"format_version": "1", "root_pair_hash": pair, "epoch": 1, "host_id": HOST, "entries": ent(&adv_a)}),
        json!({"format_version": 1, "root_pair_hash": pair, "epoch": -1, "host_id": HOST, "entries": ent(&adv_a)}),
        json!({"format_version": 1, "root_pair_hash": pair, "epoch": 1, "host_id": HOST, "entries": [ ]}),
        json!({"format_version": 1, "root_pair_hash": pair, "epoch": 1, "host_id": HOST, "entries": {"f": {"blake3": [1,2,3], "ftype": "File"}}}),
        json!({"format_version": 1, "root_pair_hash": pair, "epoch": 1, "host_id": HOST, "entries": {"f": {"blake3": hash_of(1).to_vec(), "ftype": "Dir"}}}),
        json!({"root_pair_hash": pair, "epoch": 1, "host_id": HOST, "entries": ent(&adv_b)}),
        json!({"format_version": 1, "epoch": 1, "host_id": HOST, "entries": ent(&adv_b)}),
    ];
    for (i, s) in shapes.into_iter().enumerate() {
        m.push((format!("wrong-shape-{i}"), Some(serde_json::to_vec_pretty(&s).unwrap_or_default()), false));
    }
    m
}

fn worker_job(w: &Worker, job: &Job) -> JobOut {
    let st = &job.state;
    let mut out = JobOut::default();
    let mode = job.mode.as_str();
    // ── main run (with the preceding dry run when C15) ──
    if mode == "C06" {
        // old, distinct mtimes: whatever the run does not rewrite keeps them (see the chained differential)
        w.materialise(st, false, Some(1_500_000_000), Some(1_500_000_007));
    } else {
        w.materialise(st, false, None, None);
    }
    let mut dry: Option<Vec<(String, String)>> = None;
    if mode == "C15" {
        let before = (w.snapshot(&w.a), w.snapshot(&w.b), w.home_listing());
        let (res, o) = w.run(&w.a, &w.b, true);
        out.runs_executed += 1;
        let after = (w.snapshot(&w.a), w.snapshot(&w.b), w.home_listing());
        if res != "ok" {
            out.violations.push(("dry_run_failed".into(), format!("bisync --dry-run returned {res}"), json!({})));
        }
        if before != after {
            out.violations.push(("dry_run_mutates".into(), "bisync --dry-run changed a tree, an mtime or the recorded state under $HOME/.copia".into(), json!({})));
        }
        dry = Some(dry_lines(&o.lines().filter(|l| !l.starts_with("Bidirectional plan")).collect::<Vec<_>>().join("\n")));
    }
    let (res, captured) = w.run(&w.a, &w.b, false);
    out.runs_executed += 1;
    let snap_a = w.snapshot(&w.a);
    let snap_b = w.snapshot(&w.b);
    let (pa, pb) = (Worker::tree_of(&snap_a), Worker::tree_of(&snap_b));
    out.post_a = pa.clone();
    out.post_b = pb.clone();
    out.result = res.clone();
    let arch = w.read_archive(&w.a, &w.b);
    out.post_r = arch.as_ref().ok().and_then(|x| x.as_ref().map(|y| y.0.clone()));
    let completed = res == "ok" || res == "conflicts";
    if !completed {
        if cross_clash(st) && res.starts_with("error") {
            // a file-vs-directory clash across the sides cannot be synced: an error exit is expected.
            // The failing run must still not lose anything from the side that held it.
            if mode == "C02" {
                for (side, pre, post) in [("A", &st.a, &pa), ("B", &st.b, &pb)] {
                    for (p, c) in pre.iter().filter(|(p, _)| !staging(p)) {
                        if post.get(p) != Some(c) && !survives(post, p, *c) {
                            out.violations.push(("version_lost".into(), format!("a FAILING run ({res}) removed version {p}=c{c} from side {side}"), json!({"cause": "failed_run", "path": p})));
                            return out;
                        }
                    }
                }
            }
            out.result = "failed-clash".into();
            return out;
        }
        out.violations.push(("run_failed".into(), format!("bisync did not complete: {res}"), json!({})));
        return out;
    }
    match mode {
        "C02" => c02_oracle(st, &pa, &pb, &mut out.violations),
        "C15" => {
            if let Some(lines) = &dry {
                match apply_plan(st, lines) {
                    Ok((ea, eb)) => {
                        if ea != pa || eb != pb {
                            out.violations.push(("dry_run_differs".into(), format!("dry-run lines {lines:?} applied to the pre-state give A={ea:?} B={eb:?}; the real run produced A={pa:?} B={pb:?}"), json!({})));
                        }
                    }
                    Err(e) => out.violations.push(("dry_run_differs".into(), format!("dry-run plan not applicable: {e}"), json!({}))),
                }
                if plan_count(&captured) != Some(lines.len() as u64) {
                    out.violations.push(("dry_run_differs".into(), format!("dry run listed {} action(s), the real run planned {:?}", lines.len(), plan_count(&captured)), json!({})));
                }
            }
                    // a dry run must also touch nothing when the recorded state is damaged or half-written (a crash
            // inside save() leaves only `.bak`/`.tmp`; a lost or truncated primary)
            if let Some(r) = &st.r {
                let valid = w.archive_json(&w.a, &w.b, r, None, 1);
                let faults: Vec<(&str, Option<Vec<u8>>, bool, bool)> = vec![
                    ("only-bak-tmp", None, true, true),
                    ("only-bak", None, true, false),
                    ("zero-length", Some(Vec::new()), false, false),
                    ("truncated-half", Some(valid[..valid.len() / 2].to_vec()), false, false),
                    ("truncated-half+bak", Some(valid[..valid.len() / 2].to_vec()), true, false),
                ];
                for (name, bytes, bak, tmp) in faults {
                    w.materialise(st, false, None, None);
                    let ap = w.archive_file(&w.a, &w.b);
                    let _ = std::fs::create_dir_all(ap.parent().unwrap_or(&w.home));
                    let _ = std::fs::remove_file(&ap);
                    if let Some(b) = &bytes {
                        let _ = std::fs::write(&ap, b);
                    }
                    if bak {
                        let _ = std::fs::write(format!("{}.bak", ap.display()), &valid);
                    }
                    if tmp {
                        let _ = std::fs::write(format!("{}.tmp", ap.display()), &valid);
                    }
                    let before = (w.snapshot(&w.a), w.snapshot(&w.b), w.home_listing());
                    let (dres, _) = w.run(&w.a, &w.b, true);
                    out.runs_executed += 1;
                    out.fault_runs += 1;
                    let after = (w.snapshot(&w.a), w.snapshot(&w.b), w.home_listing());
                    if dres != "ok" {
                        out.violations.push(("dry_run_failed".into(), format!("bisync --dry-run with the recorded state {name} returned {dres}"), json!({"fault": name})));
                    } else if before != after {
                        out.violations.push(("dry_run_mutates".into(), format!("bisync --dry-run with the recorded state {name} changed a tree or the files under $HOME/.copia"), json!({"fault": name})));
                    }
                }
            }
}
        "C06" => {
            // a divergent path whose conflict-copy name is already in use before the run (known-finding class D7)
            let d7 = divergent(st, st.r.is_some()).iter().any(|(q, _, l)| {
                let n = conflict_name(q, *l);
                st.a.contains_key(&n) || st.b.contains_key(&n) || st.r.as_ref().is_some_and(|r| r.contains_key(&n))
            });
            let cause = if d7 { "conflict_name_collision" } else { "other" };
            // (a) convergence
            if pa != pb {
                out.violations.push(("not_converged".into(), format!("after a completed run A={pa:?} but B={pb:?} (cause class: {cause})"), json!({"cause": cause})));
            }
            // (b) archive == exactly the common tree
            match &arch {
                Err(e) => out.violations.push(("archive_bad".into(), e.clone(), json!({}))),
                Ok(None) => out.violations.push(("archive_bad".into(), "no archive recorded after a completed run".into(), json!({}))),
                Ok(Some((t, v))) => {
                    if v["format_version"] != 1 || v["root_pair_hash"].as_str() != Some(&crate::archive::root_pair_hash(&w.a, &w.b)) {
                        out.violations.push(("archive_bad".into(), "archive format_version / pair hash wrong".into(), json!({})));
                    }
                    if *t != pa {
                        let extra: Vec<&String> = t.keys().filter(|k| !pa.contains_key(*k)).collect();
                        let class = if !extra.is_empty() && t.iter().all(|(k, c)| pa.get(k).map_or(true, |x| x == c)) && pa.keys().all(|k| t.contains_key(k)) { "extra_entries_only" } else { "other" };
                        out.violations.push(("archive_not_exact".into(), format!("recorded common state {t:?} != tree {pa:?} (cause class: {cause})"), json!({"class": class, "cause": cause})));
                    }
                }
            }
            // (e) divergent edits
            check_divergent(st, st.r.is_some(), &pa, &pb, &mut out.violations);
            // (c) immediate second run
            let (res2, cap2) = w.run(&w.a, &w.b, false);
            out.runs_executed += 1;
            let (sa2, sb2) = (w.snapshot(&w.a), w.snapshot(&w.b));
            let arch2 = w.read_archive(&w.a, &w.b).ok().flatten().map(|x| x.0);
            if res2 != "ok" || plan_count(&cap2) != Some(0) {
                out.violations.push(("not_idempotent".into(), format!("immediate second run: result {res2}, plan {:?} action(s)", plan_count(&cap2)), json!({})));
            } else if sa2 != snap_a || sb2 != snap_b || arch2 != out.post_r {
                out.violations.push(("not_idempotent".into(), "immediate second run changed a file, an mtime or the recorded entries".into(), json!({})));
            }
            // (c') chained differential: from the REAL on-disk post-state (real archive, real mtimes)
            // apply every single edit in place WITHOUT disturbing the file's mtime, run again, and
            // compare with the same edit applied to the re-materialised canonical state.
            if out.violations.is_empty() {
                let keep = w.root.join("keep");
                let _ = std::fs::remove_dir_all(&keep);
                for n in ["A", "B", "home"] {
                    crate::e3::copy_dir(&w.root.join(n), &keep.join(n));
                }
                let mut paths: BTreeSet<String> = pa.keys().chain(pb.keys()).cloned().collect();
                paths.insert("f".into());
                'chain: for p in paths.iter().filter(|p| editable(p)) {
                    for side in ["A", "B"] {
                        let cur = if side == "A" { pa.get(p).copied() } else { pb.get(p).copied() };
                        for newc in [None, Some(1u8), Some(2), Some(3)] {
                            if newc == cur {
                                continue;
                            }
                            // in place, mtime-preserving
                            for n in ["A", "B", "home"] {
                                let _ = std::fs::remove_dir_all(w.root.join(n));
                                crate::e3::copy_dir(&keep.join(n), &w.root.join(n));
                            }
                            let root = if side == "A" { &w.a } else { &w.b };
                            let full = root.join(p);
                            use std::os::unix::fs::MetadataExt;
                            let old = std::fs::metadata(&full).ok().map(|m| (m.mtime(), m.mtime_nsec()));
                            match newc {
                                None => {
                                    let _ = std::fs::remove_file(&full);
                                }
                                Some(c) => {
                                    if let Some(d) = full.parent() {
                                        let _ = std::fs::create_dir_all(d);
                                    }
                                    let _ = std::fs::write(&full, &contents()[(c - 1) as usize]);
                                    let (s0, n0) = old.unwrap_or((1_500_000_099, 0));
                                    crate::c19::set_mtime(&full, s0, n0);
                                }
                            }
                            let (r_in, _) = w.run(&w.a, &w.b, false);
                            out.runs_executed += 1;
                            let (ia, ib) = (Worker::tree_of(&w.snapshot(&w.a)), Worker::tree_of(&w.snapshot(&w.b)));
                            let ir = w.read_archive(&w.a, &w.b).ok().flatten().map(|x| x.0);
                            // canonical re-materialisation of the same edited state
                            let mut ns = State { a: pa.clone(), b: pb.clone(), r: out.post_r.clone(), s: Tree::new(), runs: 0, ops: 0 };
                            {
                                let t = if side == "A" { &mut ns.a } else { &mut ns.b };
                                match newc {
                                    None => {
                                        t.remove(p);
                                    }
                                    Some(c) => {
                                        t.insert(p.clone(), c);
                                    }
                                }
                            }
                            w.materialise(&ns, false, None, None);
                            let (r_re, _) = w.run(&w.a, &w.b, false);
                            out.runs_executed += 1;
                            let (ra, rb) = (Worker::tree_of(&w.snapshot(&w.a)), Worker::tree_of(&w.snapshot(&w.b)));
                            let rr = w.read_archive(&w.a, &w.b).ok().flatten().map(|x| x.0);
                            if r_in != r_re || ia != ra || ib != rb || ir != rr {
                                out.violations.push((
                                    "history_dependent".into(),
                                    format!("after this run, edit {side}/{p} := {newc:?} made in place with the file's mtime preserved, then bisync: result {r_in}, A={ia:?} B={ib:?} R={ir:?}; the same trees and recorded state re-created from scratch give: {r_re}, A={ra:?} B={rb:?} R={rr:?} — the outcome depends on something other than contents and recorded common state"),
                                    json!({"edit": format!("{side}/{p}:={newc:?}")}),
                                ));
                                break 'chain;
                            }
                        }
                    }
                }
            }
            // (d) swapped argument order / adversarial mtimes
            for (name, swap, ma, mb) in [("swapped+A-newer", true, Some(2_000_000_000i64), Some(1i64)), ("B-newer", false, Some(0), Some(2_000_000_000)), ("swapped+equal-epoch0", true, Some(0), Some(0))] {
                w.materialise(st, swap, ma, mb);
                let (f, s) = if swap { (&w.b, &w.a) } else { (&w.a, &w.b) };
                let (r3, _) = w.run(f, s, false);
                out.runs_executed += 1;
                let (ua, ub) = (Worker::tree_of(&w.snapshot(&w.a)), Worker::tree_of(&w.snapshot(&w.b)));
                if r3 != res || ua != pa || ub != pb {
                    out.violations.push(("order_or_mtime_dependent".into(), format!("universe {name}: result {r3}, A={ua:?} B={ub:?}; baseline: {res}, A={pa:?} B={pb:?}"), json!({"universe": name})));
                    break;
                }
            }
        }
        "C07" => {
            let mut menu = fault_menu(w, st, job.full_trunc);
            menu.push(("symlink-retarget".into(), None, false));
            // outcome with NO archive at all (the first fault of the menu): the reference every other fault must reproduce
            let mut baseline: Option<(Tree, Tree)> = None;
            for (name, bytes, leave_bak) in menu {
                w.materialise(st, false, None, None);
                if name == "symlink-retarget" {
                    // the roots are named through a symlink that pointed at ANOTHER directory pair when the
                    // (adversarial) archive was recorded, and is re-pointed at this pair before the run
                    let realx = w.root.join("realX");
                    let link = w.root.join("link");
                    let _ = std::fs::remove_dir_all(&realx);
                    let _ = std::fs::remove_file(&link);
                    let _ = std::fs::create_dir_all(realx.join("A"));
                    let _ = std::fs::create_dir_all(realx.join("B"));
                    let _ = std::os::unix::fs::symlink(&realx, &link);
                    let (la, lb) = (link.join("A"), link.join("B"));
                    let mut adv = st.a.clone();
                    for (p, c) in &st.b {
                        adv.entry(p.clone()).or_insert(*c);
                    }
                    let ap = w.archive_file(&la, &lb);
                    let _ = std::fs::create_dir_all(ap.parent().unwrap_or(&w.home));
                    let _ = std::fs::write(&ap, w.archive_json(&la, &lb, &adv, None, 1));
                    let _ = std::fs::remove_file(w.archive_file(&w.a, &w.b));
                    let _ = std::fs::remove_file(&link);
                    let _ = std::os::unix::fs::symlink(&w.root, &link);
                    let (dres, dout) = w.run(&la, &lb, true);
                    let (fres, _fcap) = w.run(&la, &lb, false);
                    out.runs_executed += 2;
                    out.fault_runs += 1;
                    let (fa, fb) = (Worker::tree_of(&w.snapshot(&w.a)), Worker::tree_of(&w.snapshot(&w.b)));
                    let _ = std::fs::remove_file(&link);
                    let mut bad: Option<String> = None;
                    if dres != "ok" || !(fres == "ok" || fres == "conflicts") {
                        bad = Some(format!("run failed: dry={dres} real={fres}"));
                    } else if dout.contains("Delete") {
                        bad = Some("the dry run lists a Delete action".into());
                    } else if st.a.iter().any(|(p, &c)| !survives(&fa, p, c) || !survives(&fb, p, c)) || st.b.iter().any(|(p, &c)| !survives(&fa, p, c) || !survives(&fb, p, c)) {
                        bad = Some("a pre-run version is not present on both sides afterwards".into());
                    }
                    if let Some(m) = bad {
                        let collide = st.a.iter().chain(st.b.iter()).any(|(p, &c)| collision(st, false, p, c));
                        out.violations.push(("fault_causes_loss".into(), format!("archive fault {name}: {m}"), json!({"fault": name, "cause": if collide { "conflict_name_collision" } else { "other" }})));
                    }
                    continue;
                }
                let ap = w.archive_file(&w.a, &w.b);
                let valid = st.r.as_ref().map(|r| w.archive_json(&w.a, &w.b, r, None, 1));
                let _ = std::fs::create_dir_all(ap.parent().unwrap_or(&w.home));
                let _ = std::fs::remove_file(&ap);
                if let Some(b) = &bytes {
                    let _ = std::fs::write(&ap, b);
                    // Archive::load itself must refuse it
                    let pair = crate::archive::root_pair_hash(&w.a, &w.b);
                    if crate::archive::Archive::load(&ap, &pair).is_some() {
                        out.violations.push(("fault_archive_trusted".into(), format!("Archive::load accepted a {name} archive"), json!({"fault": name})));
                    }
                }
                if leave_bak {
                    if let Some(v) = &valid {
                        let _ = std::fs::write(format!("{}.bak", ap.display()), v);
                        let _ = std::fs::write(format!("{}.tmp", ap.display()), v);
                    }
                }
                if name.starts_with("swapped-file-adv") {
                    let (first, second) = if name.contains("advA") { (&st.a, &st.b) } else { (&st.b, &st.a) };
                    let mut t = first.clone();
                    for (p, c) in second {
                        t.entry(p.clone()).or_insert(*c);
                    }
                    let sp = w.archive_file(&w.b, &w.a);
                    let _ = std::fs::create_dir_all(sp.parent().unwrap_or(&w.home));
                    let _ = std::fs::write(&sp, w.archive_json(&w.b, &w.a, &t, None, 1));
                }
                if name.contains("-primary+adv") {
                    let _ = std::fs::write(format!("{}.bak", ap.display()), adversarial_archive(w, st, name.contains("+advA-")));
                }
                let (dres, dout) = w.run(&w.a, &w.b, true);
                let (fres, _fcap) = w.run(&w.a, &w.b, false);
                out.runs_executed += 2;
                out.fault_runs += 1;
                let (fa, fb) = (Worker::tree_of(&w.snapshot(&w.a)), Worker::tree_of(&w.snapshot(&w.b)));
                if name == "absent" && (fres == "ok" || fres == "conflicts") {
                    baseline = Some((fa.clone(), fb.clone()));
                }
                let mut bad: Option<String> = None;
                let mut cause = "other";
                if dres != "ok" || !(fres == "ok" || fres == "conflicts") {
                    bad = Some(format!("run failed: dry={dres} real={fres}"));
                } else if dry_lines(&dout.lines().filter(|l| !l.starts_with("Bidirectional plan")).collect::<Vec<_>>().join("\n")).iter().any(|(a, _)| a.starts_with("Delete")) {
                    bad = Some("the dry run lists a Delete action".into());
                } else if baseline.as_ref().is_some_and(|b| b.0 != fa || b.1 != fb) {
                    // a lost / damaged / foreign archive must behave exactly like NO archive (the first fault of the
                    // menu): same trees afterwards. (The banner the run prints is wording, not part of the property.)
                    bad = Some("the outcome differs from the outcome with NO archive at all: the faulted archive influenced the run".to_string());
                } else {
                    for (sn, pre, post) in [("A", &st.a, &fa), ("B", &st.b, &fb)] {
                        if let Some(p) = pre.keys().find(|p| !post.contains_key(*p)) {
                            bad = Some(format!("path {p} removed from side {sn}"));
                        }
                    }
                    if bad.is_none() {
                        'o: for pre in [&st.a, &st.b] {
                            for (p, &c) in pre {
                                if !survives(&fa, p, c) || !survives(&fb, p, c) {
                                    bad = Some(format!("version {p}=c{c} not present on both sides afterwards"));
                                    if collision(st, false, p, c) {
                                        cause = "conflict_name_collision";
                                    }
                                    break 'o;
                                }
                            }
                        }
                    }
                    if bad.is_none() {
                        let mut tmp = Vec::new();
                        check_divergent(st, false, &fa, &fb, &mut tmp);
                        if let Some((_, m, _)) = tmp.into_iter().next() {
                            bad = Some(m);
                        }
                    }
                }
                if let Some(m) = bad {
                    out.violations.push(("fault_causes_loss".into(), format!("archive fault {name}: {m}"), json!({"fault": name, "cause": cause})));
                    if out.violations.len() > 3 {
                        break;
                    }
                }
            }
        }
        _ => {}
    }
    // ── binding to the shipped binary ──
    if job.cli {
        w.materialise(st, false, None, None);
        let (dcode, dout, _) = if mode == "C15" { w.run_cli(&w.a, &w.b, true) } else { (Some(0), String::new(), String::new()) };
        let (code, _o, e) = w.run_cli(&w.a, &w.b, false);
        let (ca, cb) = (Worker::tree_of(&w.snapshot(&w.a)), Worker::tree_of(&w.snapshot(&w.b)));
        let cr = w.read_archive(&w.a, &w.b).ok().flatten().map(|x| x.0);
        let want_code = if res == "ok" { Some(0) } else { Some(1) };
        out.cli_validated += 1;
        let mut mismatch = code != want_code || ca != pa || cb != pb || cr != out.post_r || plan_count(&e) != plan_count(&captured) || dcode != Some(0);
        if let (Some(lines), false) = (&dry, mismatch) {
            if dry_lines(&dout) != *lines {
                mismatch = true;
            }
        }
        if mismatch {
            out.violations.push(("cli_mismatch".into(), format!("`copia bisync` binary disagrees with the in-process run: exit {code:?} (want {want_code:?}), A={ca:?} B={cb:?} R={cr:?} vs A={pa:?} B={pb:?} R={:?}", out.post_r), json!({})));
        }
    }
    out
}

pub fn worker_main() -> ! {
    // keep the protocol channel, then send the subject's stdout/stderr to a capture file
    let sc = Scratch::new("e2w");
    let w = Worker { root: sc.root.clone(), a: sc.path("A"), b: sc.path("B"), home: sc.path("home"), cap: sc.path("capture.txt") };
    std::env::set_var("HOME", &w.home);
    std::env::set_var("HOSTNAME", HOST);
    let proto = unsafe { libc::dup(1) };
    let capf = std::fs::OpenOptions::new().create(true).write(true).append(true).open(&w.cap).unwrap_or_else(|e| machinery_error(format!("capture file: {e}")));
    use std::os::fd::{AsRawFd, FromRawFd};
    unsafe {
        libc::dup2(capf.as_raw_fd(), 1);
        libc::dup2(capf.as_raw_fd(), 2);
    }
    let mut pout = unsafe { std::fs::File::from_raw_fd(proto) };
    let stdin = std::io::stdin();
    for line in stdin.lock().lines() {
        let Ok(line) = line else { break };
        if line.is_empty() {
            continue;
        }
        let job: Job = match serde_json::from_str(&line) {
            Ok(j) => j,
            Err(e) => {
                let _ = writeln!(pout, "{}", json!({"error": e.to_string()}));
                continue;
            }
        };
        let r = worker_job(&w, &job);
        let _ = writeln!(pout, "{}", serde_json::to_string(&r).unwrap_or_default());
        let _ = pout.flush();
    }
    drop(sc);
    std::process::exit(0);
}

// ───────────────────────── coordinator ─────────────────────────

struct Pool {
    procs: Vec<Mutex<(std::process::Child, std::process::ChildStdin, BufReader<std::process::ChildStdout>)>>,
}

impl Pool {
    fn new(n: usize) -> Self {
        let exe = std::env::current_exe().unwrap_or_else(|e| machinery_error(format!("current_exe: {e}")));
        let mut procs = Vec::new();
        for _ in 0..n {
            let mut c = std::process::Command::new(&exe)
                .args(["E2", "--child", "worker"])
                .stdin(std::process::Stdio::piped())
                .stdout(std::process::Stdio::piped())
                .stderr(std::process::Stdio::inherit())
                .spawn()
                .unwrap_or_else(|e| machinery_error(format!("spawn worker: {e}")));
            let i = c.stdin.take().unwrap_or_else(|| machinery_error("worker stdin"));
            let o = BufReader::new(c.stdout.take().unwrap_or_else(|| machinery_error("worker stdout")));
            procs.push(Mutex::new((c, i, o)));
        }
        Self { procs }
    }
    fn run_all(&self, jobs: &[Job]) -> Vec<JobOut> {
        let next = std::sync::atomic::AtomicUsize::new(0);
        let results: Vec<Mutex<Option<JobOut>>> = jobs.iter().map(|_| Mutex::new(None)).collect();
        std::thread::scope(|s| {
            for p in &self.procs {
                s.spawn(|| {
                    let mut g = p.lock().unwrap_or_else(|e| e.into_inner());
                    loop {
                        let i = next.fetch_add(1, std::sync::atomic::Ordering::Relaxed);
                        if i >= jobs.len() {
                            break;
                        }
                        let line = serde_json::to_string(&jobs[i]).unwrap_or_default();
                        if writeln!(g.1, "{line}").is_err() || g.1.flush().is_err() {
                            machinery_error("worker pipe closed");
                        }
                        let mut resp = String::new();
                        if g.2.read_line(&mut resp).unwrap_or(0) == 0 {
                            machinery_error("E2 worker died (no response)");
                        }
                        let r: JobOut = serde_json::from_str(&resp).unwrap_or_else(|e| machinery_error(format!("bad worker response: {e}: {resp}")));
                        *results[i].lock().unwrap_or_else(|e| e.into_inner()) = Some(r);
                    }
                });
            }
        });
        results.into_iter().map(|m| m.into_inner().unwrap_or_else(|e| e.into_inner()).unwrap_or_default()).collect()
    }
}
impl Drop for Pool {
    fn drop(&mut self) {
        for p in &self.procs {
            if let Ok(mut g) = p.lock() {
                let _ = g.0.kill();
                let _ = g.0.wait();
            }
        }
    }
}

/// Would putting a regular file at `p` clash with a directory / file already implied by tree `t`?
fn clashes_within(t: &Tree, p: &str) -> bool {
    t.keys().any(|q| q != p && (q.starts_with(&format!("{p}/")) || p.starts_with(&format!("{q}/"))))
}
/// A path that is a file on one side and (a prefix of) a directory on the other: the run must fail.
fn cross_clash(st: &State) -> bool {
    let f = |x: &Tree, y: &Tree| x.keys().any(|p| y.keys().any(|q| q.starts_with(&format!("{p}/"))));
    f(&st.a, &st.b) || f(&st.b, &st.a)
}

/// Reserved staging names (and anything derived from them) are outside the domain of the properties.
fn staging(p: &str) -> bool {
    p.ends_with(".copia-tmp") || p.contains(".copia-tmp.")
}
fn strip_staging(t: Tree) -> Tree {
    t.into_iter().filter(|(p, _)| !staging(p)).collect()
}

fn editable(p: &str) -> bool {
    p.matches(".conflict-").count() <= 2 && !p.ends_with(".copia-tmp")
}

fn user_ops(st: &State, u0: &[&str], decor: &[&str]) -> Vec<(String, State)> {
    let mut paths: BTreeSet<String> = u0.iter().map(|s| (*s).to_string()).collect();
    paths.extend(st.a.keys().cloned());
    paths.extend(st.b.keys().cloned());
    let mut out = Vec::new();
    for p in paths.iter().filter(|p| editable(p) && !decor.contains(&p.as_str())) {
        for side in ["A", "B"] {
            let cur = if side == "A" { st.a.get(p).copied() } else { st.b.get(p).copied() };
            for c in 1..=3u8 {
                if cur != Some(c) && !clashes_within(if side == "A" { &st.a } else { &st.b }, p) {
                    let mut n = st.clone();
                    if side == "A" {
                        n.a.insert(p.clone(), c);
                    } else {
                        n.b.insert(p.clone(), c);
                    }
                    n.ops += 1;
                    out.push((format!("write({side},{p},c{c})"), n));
                }
            }
            if cur.is_some() {
                let mut n = st.clone();
                if side == "A" {
                    n.a.remove(p);
                } else {
                    n.b.remove(p);
                }
                n.ops += 1;
                out.push((format!("delete({side},{p})"), n));
            }
        }
    }
    out
}

pub struct Bound {
    /// paths that are rewritten on side A (cycling through the contents) before EVERY bisync transition, on top
    /// of the user's edits and not counted against `m`: independent, always-pending actions in a sibling directory
    pub decor: Vec<&'static str>,
    pub u0: Vec<&'static str>,
    pub e: u8,
    pub m: u8,
    pub state_cap: usize,
}

/// Archive file bytes (the on-disk format) for a pair of roots and a recorded tree.
pub fn archive_bytes(first: &Path, second: &Path, r: &Tree) -> (PathBuf, Vec<u8>) {
    let pair = crate::archive::root_pair_hash(first, second);
    let mut entries = serde_json::Map::new();
    for (p, id) in r {
        entries.insert(p.clone(), json!({"blake3": hash_of(*id).to_vec(), "ftype": "File"}));
    }
    let bytes = serde_json::to_vec_pretty(&json!({"format_version": 1, "root_pair_hash": pair, "epoch": 4, "host_id": HOST, "entries": entries})).unwrap_or_default();
    (PathBuf::from(format!(".copia/archive/{pair}.json")), bytes)
}

pub fn explore(ctx: &Ctx, mode: &str, bounds: &[Bound], fault_full_trunc_runs: u8) -> (Report, Vec<Violation>) {
    explore_collect(ctx, mode, bounds, fault_full_trunc_runs, None)
}

/// As `explore`; with `collect`, every distinct pre-state of a bisync transition (and the history
/// that first reached it) is also returned to the caller.
pub fn explore_collect(ctx: &Ctx, mode: &str, bounds: &[Bound], fault_full_trunc_runs: u8, mut collect: Option<&mut Vec<(State, Vec<String>)>>) -> (Report, Vec<Violation>) {
    let pool = Pool::new(16);
    let mut violations: Vec<Violation> = Vec::new();
    let mut tot_states = 0u64;
    let mut tot_trans = 0u64;
    let mut tot_bisync = 0u64;
    let mut tot_runs = 0u64;
    let mut tot_cli = 0u64;
    let mut tot_fault = 0u64;
    let mut outcomes: BTreeSet<String> = BTreeSet::new();
    let mut samples: Vec<Value> = Vec::new();
    let mut capped = false;
    let mut bound_desc = Vec::new();
    let cli_budget: u64 = if ctx.tier.is_thorough() { 6000 } else { 1500 };
    for bd in bounds {
        let mut seen: HashSet<State> = HashSet::new();
        // history that first reached each state (for replay files and samples)
        let mut hist: std::collections::HashMap<State, Vec<String>> = Default::default();
        let vals: [Option<u8>; 4] = [None, Some(1), Some(2), Some(3)];
        let mut frontier: Vec<State> = Vec::new();
        let n = bd.u0.len();
        for idx in 0..16usize.pow(n as u32) {
            let mut k = idx;
            let mut st = State { a: Tree::new(), b: Tree::new(), r: None, s: Tree::new(), runs: 0, ops: 0 };
            for p in &bd.u0 {
                if let Some(c) = vals[k % 4] {
                    st.a.insert((*p).to_string(), c);
                }
                if let Some(c) = vals[(k / 4) % 4] {
                    st.b.insert((*p).to_string(), c);
                }
                k /= 16;
            }
            if st.a.keys().any(|p| clashes_within(&st.a, p)) || st.b.keys().any(|p| clashes_within(&st.b, p)) {
                continue;
            }
            if seen.insert(st.clone()) {
                hist.insert(st.clone(), vec![format!("init A={:?} B={:?}", st.a, st.b)]);
                frontier.push(st);
            }
        }
        let mut level = 0usize;
        let mut deepest_complete = 0usize;
        while !frontier.is_empty() {
            level += 1;
            let mut next: Vec<State> = Vec::new();
            // user ops (pure map edits by the harness)
            for st in &frontier {
                if st.runs > 0 && st.runs < bd.e && st.ops < bd.m {
                    for (label, ns) in user_ops(st, &bd.u0, &bd.decor) {
                        tot_trans += 1;
                        if seen.insert(ns.clone()) {
                            let mut h = hist.get(st).cloned().unwrap_or_default();
                            h.push(label);
                            hist.insert(ns.clone(), h);
                            next.push(ns);
                        }
                    }
                }
            }
            // bisync transitions (real code)
            let decorated: Vec<State> = if bd.decor.is_empty() {
                Vec::new()
            } else {
                frontier
                    .iter()
                    .map(|st| {
                        let mut d = st.clone();
                        for p in &bd.decor {
                            let nc = d.a.get(*p).map_or(1, |c| c % 3 + 1);
                            d.a.insert((*p).to_string(), nc);
                        }
                        d
                    })
                    .collect()
            };
            if !bd.decor.is_empty() {
                for (st, d) in frontier.iter().zip(&decorated) {
                    let mut h = hist.get(st).cloned().unwrap_or_default();
                    h.push(format!("auto-rewrite on A: {:?}", bd.decor.iter().map(|p| format!("{p}=c{}", d.a[*p])).collect::<Vec<_>>()));
                    hist.entry(d.clone()).or_insert(h);
                }
            }
            let pool_src: &Vec<State> = if bd.decor.is_empty() { &frontier } else { &decorated };
            let run_states: Vec<&State> = pool_src.iter().filter(|st| st.runs < bd.e && (st.runs == 0 || st.ops > 0 || !bd.decor.is_empty())).collect();
            if let Some(c) = collect.as_deref_mut() {
                for st in &run_states {
                    c.push(((*st).clone(), hist.get(*st).cloned().unwrap_or_default()));
                }
            }
            let jobs: Vec<Job> = run_states
                .iter()
                .enumerate()
                .map(|(i, st)| Job {
                    mode: mode.to_string(),
                    state: (*st).clone(),
                    cli: tot_cli + (i as u64) < cli_budget,
                    full_trunc: st.runs <= fault_full_trunc_runs,
                })
                .collect();
            let outs = pool.run_all(&jobs);
            for (st, o) in run_states.iter().zip(outs) {
                tot_trans += 1;
                tot_bisync += 1;
                tot_runs += o.runs_executed;
                tot_cli += o.cli_validated;
                tot_fault += o.fault_runs;
                outcomes.insert(format!("{}|{}|{}", o.result, o.post_a.len(), o.post_a == o.post_b));
                let mut h = hist.get(*st).cloned().unwrap_or_default();
                h.push("bisync".to_string());
                if !o.violations.is_empty() {
                    for (k, m, extra) in o.violations.iter().take(2) {
                        if k == "cli_mismatch" {
                            // the binary's own result is judged by the same oracle when it is the subject; here it is a binding failure
                            machinery_error(format!("CLI/in-process divergence on history {h:?}: {m}"));
                        }
                        let mut v = Violation::new(k, format!("{m}; history: {}", h.join(" ; ")), json!({"mode": mode, "history": h, "state": st}));
                        if let Value::Object(ex) = extra {
                            for (kk, vv) in ex {
                                v = v.with(kk, vv.clone());
                            }
                        }
                        violations.push(v);
                    }
                    continue; // successors of a violating transition are not expanded
                }
                let common: Tree = if o.result == "failed-clash" {
                    st.s.clone() // the oracle memory only advances at completed runs
                } else {
                    o.post_a.iter().filter(|(p, c)| o.post_b.get(*p) == Some(c)).map(|(p, c)| (p.clone(), *c)).collect()
                };
                // leftovers with reserved staging names (only a FAILED run leaves any) are outside the domain:
                // the successor state is the tree without them, i.e. they are cleaned up between runs
                let ns = State { a: strip_staging(o.post_a), b: strip_staging(o.post_b), r: o.post_r.map(strip_staging), s: strip_staging(common), runs: st.runs + 1, ops: 0 };
                if seen.insert(ns.clone()) {
                    if samples.len() < 4 && h.len() >= 4 {
                        samples.push(json!({"history": h, "reached": ns}));
                    }
                    hist.insert(ns.clone(), h);
                    next.push(ns);
                }
            }
            if seen.len() > bd.state_cap {
                capped = true;
                break;
            }
            deepest_complete = level;
            frontier = next;
        }
        tot_states += seen.len() as u64;
        bound_desc.push(json!({"U0": bd.u0, "max_runs": bd.e, "max_ops_between_runs": bd.m, "states": seen.len(), "levels_completed": deepest_complete, "capped": capped}));
    }
    if samples.is_empty() {
        samples.push(json!({"history": ["init", "bisync"]}));
    }
    // keep the violation list readable: shortest history first, a few per signature
    violations.sort_by_key(|v| v.detail["history"].as_array().map_or(0, Vec::len));
    let mut per: std::collections::HashMap<String, usize> = Default::default();
    violations.retain(|v| {
        let c = per.entry(v.sig.to_string()).or_insert(0);
        *c += 1;
        *c <= 3
    });
    let mut rep = Report::new("model_checking");
    rep.set("states", tot_states)
        .set("transitions", tot_trans)
        .set("bisync_transitions", tot_bisync)
        .set("real_runs_executed", tot_runs)
        .set("fault_runs", tot_fault)
        .set("traces_validated_against_impl", tot_cli)
        .set("distinct_outcomes", outcomes.len() as u64)
        .set("bounds", Value::Array(bound_desc))
        .set("capped", capped)
        .set("samples", Value::Array(samples))
        .set("explanation", "level-synchronous BFS over canonical states (A, B, archive entries, oracle memory S, runs, ops); user ops are map edits by the harness, every bisync transition materialises the pre-state on tmpfs and calls the real bidir::run_bisync in a worker process; traces_validated_against_impl counts bisync transitions re-executed with the built `copia bisync` binary and compared (trees, archive entries, exit status, plan count)");
    rep.assume("canonical state drops mtimes, epoch and host id (mtime/order independence is itself checked by C06); three contents ordered by BLAKE3 (one of them empty); HOSTNAME fixed; symlinks and directories-replacing-files out of scope");
    let _ = ctx;
    (rep, violations)
}

fn replay(ctx: &Ctx, mode: &str) -> ! {
    let rp = ctx.replay.clone().unwrap_or_default();
    let v: Value = serde_json::from_slice(&std::fs::read(&rp).unwrap_or_default()).unwrap_or(Value::Null);
    if v["detail"]["io_fault"].is_object() {
        let (runs, vs) = crate::e3::bisync_io_faults(mode, ctx.seed, true);
        let mut rep = Report::new("model_checking");
        rep.set("states", runs).set("transitions", runs).set("traces_validated_against_impl", runs).set("samples", json!([v["detail"]]));
        finish(ctx, rep, vs);
    }
    if v["detail"]["large_file_size"].is_u64() {
        let (runs, vs) = c06_large_files(true);
        let mut rep = Report::new("model_checking");
        rep.set("states", runs).set("transitions", runs).set("traces_validated_against_impl", runs).set("samples", json!([v["detail"]]));
        finish(ctx, rep, vs);
    }
    if v["detail"]["root_names"].is_array() {
        let (runs, vs) = c07_root_names();
        let mut rep = Report::new("model_checking");
        rep.set("states", runs).set("transitions", runs).set("traces_validated_against_impl", runs).set("samples", json!([v["detail"]]));
        finish(ctx, rep, vs);
    }
    let st: State = serde_json::from_value(v["detail"]["state"].clone()).unwrap_or_else(|e| machinery_error(format!("replay file has no state: {e}")));
    let pool = Pool::new(1);
    let job = Job { mode: mode.to_string(), state: st.clone(), cli: false, full_trunc: true };
    let o1 = pool.run_all(&[job.clone()]);
    let o2 = pool.run_all(&[job]);
    if o1[0].violations.len() != o2[0].violations.len() || o1[0].post_a != o2[0].post_a {
        machinery_error("E2 replay is not deterministic");
    }
    let vs: Vec<Violation> = o1[0]
        .violations
        .iter()
        .map(|(k, m, extra)| {
            let mut x = Violation::new(k, m.clone(), v["detail"].clone());
            if let Value::Object(ex) = extra {
                for (kk, vv) in ex {
                    x = x.with(kk, vv.clone());
                }
            }
            x
        })
        .collect();
    let mut rep = Report::new("model_checking");
    rep.set("states", 1u64).set("transitions", 1u64).set("traces_validated_against_impl", 0u64).set("samples", json!([v["detail"]]));
    finish(ctx, rep, vs);
}

/// C07, "belongs to a different pair of directories": pairs of root directories whose NAMES differ only in bytes
/// that are not valid UTF-8 (or in U+FFFD itself). The archive recorded for (A, B1) must never be trusted for (A, B2).
fn c07_root_names() -> (u64, Vec<Violation>) {
    use std::ffi::OsString;
    use std::os::unix::ffi::OsStringExt;
    let suffixes: Vec<(&str, Vec<u8>)> = vec![("ff", vec![0xFF]), ("fe", vec![0xFE]), ("fffd", "\u{FFFD}".as_bytes().to_vec()), ("c3", vec![0xC3]), ("e282", vec![0xE2, 0x82]), ("plain", b"x".to_vec())];
    let mut runs = 0u64;
    let mut out = Vec::new();
    for (n1, s1) in &suffixes {
        for (n2, s2) in &suffixes {
            if n1 == n2 {
                continue;
            }
            for varied in ["second", "first"] {
                let sc = Scratch::new("c07names");
                let home = sc.path("home");
                let _ = std::fs::create_dir_all(&home);
                let name = |suf: &[u8]| -> PathBuf {
                    let mut b = b"R".to_vec();
                    b.extend_from_slice(suf);
                    sc.path("").join(OsString::from_vec(b))
                };
                let fixed = sc.path("fixed");
                let (v1, v2) = (name(s1), name(s2));
                for d in [&fixed, &v1, &v2] {
                    let _ = std::fs::create_dir_all(d);
                }
                if !v1.is_dir() || !v2.is_dir() || v1 == v2 {
                    continue; // the file system refused one of the names
                }
                for f in ["f1", "f2", "f3"] {
                    let _ = std::fs::write(fixed.join(f), format!("content of {f}"));
                }
                let _ = std::fs::write(v2.join("f1"), "content of f1");
                let run = |x: &Path, y: &Path| {
                    let mut c = std::process::Command::new(cli_bin());
                    c.arg("bisync").arg(x).arg(y).env("HOME", &home).env("HOSTNAME", HOST).env("RUST_LOG", "off");
                    output_with_timeout(&mut c, 30)
                };
                let (a1, b1, a2, b2) = if varied == "second" { (&fixed, &v1, &fixed, &v2) } else { (&v1, &fixed, &v2, &fixed) };
                let (c1, _, e1) = run(a1, b1);
                runs += 1;
                if c1 != Some(0) {
                    machinery_error(format!("C07 root-name scenario: the first sync failed: {}", String::from_utf8_lossy(&e1)));
                }
                let (_c2, _, e2) = run(a2, b2);
                runs += 1;
                let lost: Vec<&str> = ["f1", "f2", "f3"].into_iter().filter(|f| !fixed.join(f).is_file() || !v2.join(f).is_file()).collect();
                if !lost.is_empty() {
                    out.push(
                        Violation::new("foreign_pair_trusted", format!("roots R<{n1}> then R<{n2}> as the {varied} root (names differing only in non-UTF-8 / U+FFFD bytes): after the second pair's first bisync {lost:?} are missing (stderr: {})", String::from_utf8_lossy(&e2).lines().next().unwrap_or("")), json!({"root_names": [n1, n2], "varied": varied}))
                            .with("fault", json!("foreign-pair-by-name")),
                    );
                }
            }
        }
    }
    out.truncate(3);
    (runs, out)
}

/// C06 on contents that are not tiny: sizes around every buffer a streaming hasher might use. For each size:
/// one-sided creation, a same-size edit of the LAST byte, an extension by bytes that a stale read buffer would
/// still hold, and a divergent edit. Oracle: both sides byte-identical, the archive records the true BLAKE3 of
/// every file, the winner of the divergent edit is the greater true BLAKE3 and the loser sits at the name built
/// from its true hash, and an immediate second run plans nothing.
fn c06_large_files(thorough: bool) -> (u64, Vec<Violation>) {
    let mib = 1usize << 20;
    let mut sizes = vec![65_537usize, mib - 1, mib, mib + 1, mib + 5000, 2 * mib, 2 * mib + 1, 3 * mib + 7];
    if thorough {
        sizes.extend([8192, 65_536, 262_144, 262_145, 4 * mib, 4 * mib + 4096 + 1, 8 * mib + 3]);
    }
    let res: Vec<(u64, Option<Violation>)> = sizes
        .par_iter()
        .map(|&sz| {
            let sc = Scratch::new("c06big");
            let (a, b, home) = (sc.path("a"), sc.path("b"), sc.path("home"));
            for d in [&a, &b, &home] {
                let _ = std::fs::create_dir_all(d);
            }
            let mut runs = 0u64;
            let run = |runs: &mut u64| {
                *runs += 1;
                let mut c = std::process::Command::new(cli_bin());
                c.arg("bisync").arg(&a).arg(&b).env("HOME", &home).env("HOSTNAME", HOST).env("RUST_LOG", "off");
                let (code, _o, e) = output_with_timeout(&mut c, 60);
                (code, String::from_utf8_lossy(&e).into_owned())
            };
            let x: Vec<u8> = Rng::new(sz as u64 ^ 0xC06).bytes(sz);
            let fail = |step: &str, m: String| Some(Violation::new("large_file", format!("size {sz}, {step}: {m}"), json!({"large_file_size": sz, "step": step})).with("cause", json!("large_content")));
            let recorded = |p: &str| -> Option<Vec<u8>> {
                let pair = crate::archive::root_pair_hash(&a, &b);
                let bytes = std::fs::read(home.join(".copia").join("archive").join(format!("{pair}.json"))).ok()?;
                let v: Value = serde_json::from_slice(&bytes).ok()?;
                v["entries"][p]["blake3"].as_array().map(|arr| arr.iter().filter_map(|q| q.as_u64().map(|n| n as u8)).collect())
            };
            let settled = |step: &str, want: &[(&str, &[u8])], runs: &mut u64| -> Option<Violation> {
                for (p, bytes) in want {
                    for (sn, root) in [("A", &a), ("B", &b)] {
                        match std::fs::read(root.join(p)) {
                            Ok(got) if got == *bytes => {}
                            Ok(got) => return fail(step, format!("side {sn} holds {} bytes at {p} that are not the expected version ({} bytes)", got.len(), bytes.len())),
                            Err(_) => return fail(step, format!("{p} missing on side {sn}")),
                        }
                    }
                    if recorded(p).as_deref() != Some(blake3::hash(bytes).as_bytes().as_slice()) {
                        return fail(step, format!("the recorded common state for {p} is not the BLAKE3 of its bytes"));
                    }
                }
                let (c2, e2) = run(runs);
                if c2 != Some(0) || plan_count(&e2) != Some(0) {
                    return fail(step, format!("an immediate second run exits {c2:?} and plans {:?}", plan_count(&e2)));
                }
                None
            };
            // 1. created on A only
            let _ = std::fs::write(a.join("big"), &x);
            let (c, e) = run(&mut runs);
            if c != Some(0) {
                return (runs, fail("create", format!("exit {c:?}: {}", e.lines().last().unwrap_or(""))));
            }
            if let Some(v) = settled("create", &[("big", &x)], &mut runs) {
                return (runs, Some(v));
            }
            // 2. same-size edit of the last byte on B
            let mut y = x.clone();
            let l = y.len();
            y[l - 1] ^= 0x55;
            let _ = std::fs::write(b.join("big"), &y);
            let (c, e) = run(&mut runs);
            if c != Some(0) {
                return (runs, fail("edit-last-byte", format!("exit {c:?}: {}", e.lines().last().unwrap_or(""))));
            }
            if let Some(v) = settled("edit-last-byte", &[("big", &y)], &mut runs) {
                return (runs, Some(v));
            }
            // 3. extension on A by the bytes a stale 1 MiB / 256 KiB / 64 KiB read buffer would still hold
            for buf in [mib, 262_144, 65_536] {
                let cur = std::fs::read(a.join("big")).unwrap_or_default();
                let t = cur.len() % buf;
                if t == 0 || cur.len() < buf {
                    continue;
                }
                let prev = &cur[cur.len() - t - buf..cur.len() - t];
                let mut z = cur.clone();
                z.extend_from_slice(&prev[t..]);
                let _ = std::fs::write(a.join("big"), &z);
                let (c, e) = run(&mut runs);
                if c != Some(0) {
                    return (runs, fail("extend-with-stale-buffer-bytes", format!("exit {c:?}: {}", e.lines().last().unwrap_or(""))));
                }
                if let Some(v) = settled("extend-with-stale-buffer-bytes", &[("big", &z)], &mut runs) {
                    return (runs, Some(v));
                }
            }
            // 4. divergent edit: both sides rewrite the file (same size, different bytes)
            let base = std::fs::read(a.join("big")).unwrap_or_default();
            let (mut p1, mut p2) = (base.clone(), base.clone());
            let l = base.len();
            p1[l - 2] ^= 0x01;
            p2[l - 3] ^= 0x02;
            let _ = std::fs::write(a.join("big"), &p1);
            let _ = std::fs::write(b.join("big"), &p2);
            let (c, _e) = run(&mut runs);
            if c != Some(1) && c != Some(0) {
                return (runs, fail("divergent", format!("exit {c:?}")));
            }
            let (h1, h2) = (blake3::hash(&p1), blake3::hash(&p2));
            let (win, lose, lh) = if h1.as_bytes() >= h2.as_bytes() { (&p1, &p2, h2) } else { (&p2, &p1, h1) };
            let cname = format!("big.conflict-{HOST}-{}", &lh.to_hex()[..12]);
            if let Some(v) = settled("divergent", &[("big", win), (cname.as_str(), lose)], &mut runs) {
                return (runs, Some(v));
            }
            (runs, None)
        })
        .collect();
    let runs = res.iter().map(|r| r.0).sum();
    (runs, res.into_iter().filter_map(|r| r.1).take(3).collect())
}

pub fn run(ctx: &Ctx, mode: &str) -> ! {
    if ctx.replay.is_some() {
        replay(ctx, mode);
    }
    let t = ctx.tier.is_thorough();
    // universes: a single path; two independent paths; a pair whose byte order and component order
    // disagree ("n.t" < "n/t" bytewise, "n/t" < "n.t" as paths); a file-vs-directory pair ("d", "d/g")
    let b = |u0: Vec<&'static str>, e: u8, m: u8| Bound { u0, e, m, state_cap: 2_500_000, decor: vec![] };
    // "d/f" with two always-pending propagations under the sibling directory "d.b" (plans of >= 3 entries whose
    // byte order and component order disagree)
    let bd = |u0: Vec<&'static str>, e: u8, m: u8| Bound { u0, e, m, state_cap: 2_500_000, decor: vec!["d.b/x", "d.b/y"] };
    let bounds: Vec<Bound> = match (mode, t) {
        ("C07", false) => vec![b(vec!["f"], 2, 2), b(vec!["n.t", "n/t"], 1, 0)],
        ("C07", true) => vec![b(vec!["f"], 3, 2), b(vec!["f", "d/g"], 2, 1), b(vec!["n.t", "n/t"], 2, 1)],
        ("C06", true) => vec![b(vec!["f"], 4, 2), b(vec!["f"], 3, 3), b(vec!["f", "d/g"], 3, 2), b(vec!["n.t", "n/t"], 2, 2)],
        (_, false) => vec![b(vec!["f"], 3, 2), b(vec!["f", "d/g"], 2, 1), b(vec!["n.t", "n/t"], 2, 1), b(vec!["d", "d/g"], 2, 1), bd(vec!["d/f"], 2, 3)],
        (_, true) => vec![b(vec!["f"], 5, 2), b(vec!["f"], 3, 3), b(vec!["f", "d/g"], 3, 2), b(vec!["n.t", "n/t"], 3, 2), b(vec!["d", "d/g"], 3, 2), bd(vec!["d/f"], 3, 3)],
    };
    let (mut rep, mut v) = explore(ctx, mode, &bounds, 1);
    if mode == "C06" || mode == "C02" {
        let (runs, vs) = crate::e3::bisync_io_faults(mode, ctx.seed, t);
        rep.set("io_fault_runs", runs);
        v.extend(vs);
    }
    if mode == "C06" {
        let (runs, vs) = c06_large_files(t);
        rep.set("large_file_runs", runs);
        v.extend(vs);
    }
    if mode == "C07" {
        let (runs, vs) = c07_root_names();
        rep.set("root_name_pair_runs", runs);
        v.extend(vs);
    }
    finish(ctx, rep, v);
}
