//! C18 — the three-way reconcile decision is exactly the documented table.
//! Complete quotient (Fingerprint + absent)^3, relabellings, all small path maps,
//! bound to the repository's Lean model (evaluated) and to `bisync --dry-run`.

use crate::common::*;
use crate::reconcile::{reconcile, reconcile_path, Action, ConflictKind, FileType, Fingerprint, FpMap};
use rayon::prelude::*;
use serde_json::{json, Value};
use std::path::PathBuf;

/// Abstract value: None = absent, Some((digest id 1..=3, is_symlink)).
type V = Option<(u8, bool)>;

fn all_values() -> Vec<V> {
    let mut v = vec![None];
    for d in 1..=3u8 {
        for s in [false, true] {
            v.push(Some((d, s)));
        }
    }
    v
}

fn concrete(v: V, labels: &[[u8; 32]; 3]) -> Option<Fingerprint> {
    v.map(|(d, s)| Fingerprint { blake3: labels[(d - 1) as usize], ftype: if s { FileType::Symlink } else { FileType::File } })
}

/// The documented table, written from the property text over the equality pattern.
fn table(a: V, b: V, z: V) -> Action {
    let eq = |x: V, y: V| x.is_some() && x == y;
    match (a.is_some(), b.is_some()) {
        (false, false) => Action::Noop,
        (true, true) => {
            if a == b {
                // equal on both sides: nothing, or record-only if the base differs or is missing
                if eq(a, z) {
                    Action::Noop
                } else {
                    Action::ConvergeIdentical
                }
            } else {
                let a_same_as_base = eq(a, z);
                let b_same_as_base = eq(b, z);
                match (a_same_as_base, b_same_as_base) {
                    (true, false) => Action::PropagateBtoA, // only B differs from the base
                    (false, true) => Action::PropagateAtoB, // only A differs from the base
                    _ => Action::Conflict(ConflictKind::BothChanged),
                }
            }
        }
        (true, false) => {
            if z.is_none() {
                Action::PropagateAtoB // no base: create on the other side
            } else if eq(a, z) {
                Action::DeleteA // survivor equals the base
            } else {
                Action::Conflict(ConflictKind::DeleteVsModify)
            }
        }
        (false, true) => {
            if z.is_none() {
                Action::PropagateBtoA
            } else if eq(b, z) {
                Action::DeleteB
            } else {
                Action::Conflict(ConflictKind::DeleteVsModify)
            }
        }
    }
}

fn mirror(a: Action) -> Action {
    match a {
        Action::PropagateAtoB => Action::PropagateBtoA,
        Action::PropagateBtoA => Action::PropagateAtoB,
        Action::DeleteA => Action::DeleteB,
        Action::DeleteB => Action::DeleteA,
        x => x,
    }
}

fn vshow(v: V) -> Value {
    match v {
        None => json!("absent"),
        Some((d, s)) => json!(format!("d{}:{}", d, if s { "Symlink" } else { "File" })),
    }
}
fn vparse(v: &Value) -> V {
    let s = v.as_str()?;
    if s == "absent" {
        return None;
    }
    let d = s.as_bytes().get(1)?.wrapping_sub(b'0');
    Some((d, s.ends_with("Symlink")))
}

fn labelings(seed: u64) -> Vec<(String, [[u8; 32]; 3])> {
    let mut out = Vec::new();
    out.push(("small".to_string(), [[1u8; 32], [2u8; 32], [3u8; 32]]));
    out.push(("extreme".to_string(), [[0u8; 32], [0xFFu8; 32], [0x7Fu8; 32]]));
    let mut last = [[0u8; 32]; 3];
    last[1][31] = 1;
    last[2][31] = 2;
    out.push(("differ_in_last_byte".to_string(), last));
    let mut first = [[0xAAu8; 32]; 3];
    first[1][0] = 0xAB;
    first[2][0] = 0x2A;
    out.push(("differ_in_first_byte".to_string(), first));
    let mut mid = [[0x55u8; 32]; 3];
    mid[1][16] = 0x54;
    mid[2][7] = 0x00;
    out.push(("differ_in_one_middle_byte".to_string(), mid));
    let mut r = Rng::new(seed);
    for i in 0..6 {
        let mut l = [[0u8; 32]; 3];
        for x in &mut l {
            x.copy_from_slice(&r.bytes(32));
        }
        out.push((format!("seeded{i}"), l));
    }
    // every permutation of one labelling (injective relabelling changes order relations)
    let base = [[9u8; 32], [5u8; 32], [200u8; 32]];
    for p in [[0, 1, 2], [0, 2, 1], [1, 0, 2], [1, 2, 0], [2, 0, 1], [2, 1, 0]] {
        out.push((format!("perm{}{}{}", p[0], p[1], p[2]), [base[p[0]], base[p[1]], base[p[2]]]));
    }
    out
}

fn check_triple(a: V, b: V, z: V, lname: &str, labels: &[[u8; 32]; 3]) -> Option<Violation> {
    let (ca, cb, cz) = (concrete(a, labels), concrete(b, labels), concrete(z, labels));
    let detail = json!({"a": vshow(a), "b": vshow(b), "base": vshow(z), "labeling": lname});
    let got = match catch(|| reconcile_path(ca, cb, cz)) {
        Ok(g) => g,
        Err(p) => return Some(Violation::new("panic", format!("reconcile_path panicked: {p}"), detail)),
    };
    let want = table(a, b, z);
    if got != want {
        return Some(Violation::new("table", format!("reconcile_path({:?},{:?},{:?}) = {got:?}, documented table says {want:?} [{lname}]", vshow(a), vshow(b), vshow(z)), detail));
    }
    let swapped = reconcile_path(cb, ca, cz);
    if swapped != mirror(got) {
        return Some(Violation::new("symmetry", format!("not mirror-symmetric: (a,b)->{got:?}, (b,a)->{swapped:?}"), detail));
    }
    if z.is_none() && matches!(got, Action::DeleteA | Action::DeleteB) {
        return Some(Violation::new("delete_without_base", format!("{got:?} with no base"), detail));
    }
    None
}

const TREE_VALS: [V; 4] = [None, Some((1, false)), Some((2, false)), Some((3, false))];

const UNIVERSES: [[&str; 4]; 3] = [["p", "q", "d/r", "d"], ["notes.txt", "notes/todo", "notes-a", "notes"], ["a b", "a/b", "a", "a.b/c"]];

fn check_tree(idx: usize, npaths: usize, uni: usize, trust: bool, labels: &[[u8; 32]; 3]) -> Option<Violation> {
    let paths = UNIVERSES[uni];
    // idx encodes, per path, (a, b, base) each in 0..4
    let mut k = idx;
    let mut a = FpMap::new();
    let mut b = FpMap::new();
    let mut z = FpMap::new();
    let mut abs: Vec<(V, V, V)> = Vec::new();
    for p in paths.iter().take(npaths) {
        let (va, vb, vz) = (TREE_VALS[k % 4], TREE_VALS[(k / 4) % 4], TREE_VALS[(k / 16) % 4]);
        k /= 64;
        abs.push((va, vb, vz));
        if let Some(f) = concrete(va, labels) {
            a.insert(PathBuf::from(p), f);
        }
        if let Some(f) = concrete(vb, labels) {
            b.insert(PathBuf::from(p), f);
        }
        if let Some(f) = concrete(vz, labels) {
            z.insert(PathBuf::from(p), f);
        }
    }
    let detail = json!({"tree_index": idx, "paths": npaths, "universe": uni, "trust": trust,
        "states": abs.iter().map(|(x,y,w)| json!([vshow(*x), vshow(*y), vshow(*w)])).collect::<Vec<_>>()});
    let got = match catch(std::panic::AssertUnwindSafe(|| reconcile(&a, &b, &z, trust))) {
        Ok(g) => g,
        Err(p) => return Some(Violation::new("panic", format!("reconcile panicked: {p}"), detail)),
    };
    let mut order: Vec<usize> = (0..npaths).collect();
    order.sort_by_key(|&i| PathBuf::from(paths[i]));
    let mut want = Vec::new();
    for i in order {
        let (va, vb, vz) = abs[i];
        if va.is_none() && vb.is_none() {
            continue;
        }
        let act = table(va, vb, if trust { vz } else { None });
        if act != Action::Noop {
            want.push((PathBuf::from(paths[i]), act));
        }
    }
    if got != want {
        return Some(Violation::new("tree", format!("reconcile over trees: got {got:?}, want {want:?} (trust={trust})"), detail));
    }
    None
}

// ───────────── Lean model binding ─────────────

fn lean_binding(n_checked: &mut u64) -> Vec<Violation> {
    let src = match std::fs::read_to_string("/repo/lean/BidirectionalReconcile.lean") {
        Ok(s) => s,
        Err(e) => machinery_error(format!("cannot read the repository's Lean model: {e}")),
    };
    let driver = r#"
open ProvableContracts.Copia.Bidir in
def vhActName : Action → String
  | .Noop => "Noop" | .PropA => "PropA" | .PropB => "PropB" | .Converge => "Converge"
  | .DeleteA => "DeleteA" | .DeleteB => "DeleteB" | .Conflict => "Conflict"
def vhShow : Option Nat → String
  | none => "-" | some n => toString n
open ProvableContracts.Copia.Bidir in
#eval (do
  let vals : List (Option Nat) := [none, some 0, some 1, some 2, some 3]
  for a in vals do
    for b in vals do
      for z in vals do
        IO.println s!"VH {vhShow a} {vhShow b} {vhShow z} {vhActName (reconcile a b z)}" : IO Unit)
"#;
    let sc = Scratch::new("lean");
    let f = sc.path("EvalReconcile.lean");
    if let Err(e) = std::fs::write(&f, format!("{src}\n{driver}")) {
        machinery_error(format!("write lean driver: {e}"));
    }
    let out = match std::process::Command::new("lean").arg(&f).output() {
        Ok(o) => o,
        Err(e) => machinery_error(format!("cannot run lean: {e}")),
    };
    let text = String::from_utf8_lossy(&out.stdout).into_owned();
    let lines: Vec<&str> = text.lines().filter(|l| l.starts_with("VH ")).collect();
    if lines.len() != 125 {
        machinery_error(format!("lean evaluation produced {} rows (want 125); status {:?}; stderr: {}", lines.len(), out.status.code(), String::from_utf8_lossy(&out.stderr)));
    }
    let labels = [[11u8; 32], [22u8; 32], [33u8; 32]];
    let four = [[11u8; 32], [22u8; 32], [33u8; 32], [44u8; 32]];
    let _ = labels;
    let mut v = Vec::new();
    for l in lines {
        let t: Vec<&str> = l.split_whitespace().collect();
        let pv = |s: &str| -> Option<Fingerprint> {
            if s == "-" {
                None
            } else {
                s.parse::<usize>().ok().map(|n| Fingerprint { blake3: four[n], ftype: FileType::File })
            }
        };
        let got = reconcile_path(pv(t[1]), pv(t[2]), pv(t[3]));
        let name = match got {
            Action::Noop => "Noop",
            Action::PropagateAtoB => "PropA",
            Action::PropagateBtoA => "PropB",
            Action::ConvergeIdentical => "Converge",
            Action::DeleteA => "DeleteA",
            Action::DeleteB => "DeleteB",
            Action::Conflict(_) => "Conflict",
        };
        *n_checked += 1;
        if name != t[4] {
            v.push(Violation::new("lean_model", format!("Rust reconcile_path({},{},{}) = {got:?} but the repository's Lean model evaluates to {}", t[1], t[2], t[3], t[4]), json!({"lean_row": l})));
        }
    }
    v
}

// ───────────── `bisync --dry-run` binding ─────────────

fn dryrun_binding(n_checked: &mut u64) -> Vec<Violation> {
    use crate::archive::{archive_path, root_pair_hash, Archive};
    let contents: [&[u8]; 3] = [b"one\n", b"two two\n", b"three\n"];
    let mut jobs = Vec::new();
    for a in 0..4usize {
        for b in 0..4usize {
            for z in 0..5usize {
                // z: 0 = archive present without entry, 1..3 = entry with content, 4 = no archive at all
                jobs.push((a, b, z));
            }
        }
    }
    *n_checked += jobs.len() as u64;
    jobs.par_iter()
        .filter_map(|&(a, b, z)| {
            let sc = Scratch::new("c18dry");
            let (ra, rb, home) = (sc.path("A"), sc.path("B"), sc.path("home"));
            for d in [&ra, &rb, &home] {
                let _ = std::fs::create_dir_all(d);
            }
            if a > 0 {
                let _ = std::fs::write(ra.join("f"), contents[a - 1]);
            }
            if b > 0 {
                let _ = std::fs::write(rb.join("f"), contents[b - 1]);
            }
            let pair = root_pair_hash(&ra, &rb);
            if z < 4 {
                let mut arc = Archive::fresh(pair.clone(), "vhost".into());
                arc.epoch = 3;
                if z > 0 {
                    arc.entries.insert(PathBuf::from("f"), Fingerprint { blake3: *blake3::hash(contents[z - 1]).as_bytes(), ftype: FileType::File });
                }
                let ap = home.join(".copia").join("archive").join(format!("{pair}.json"));
                let _ = std::fs::create_dir_all(ap.parent().unwrap_or(&home));
                let _ = std::fs::write(&ap, serde_json::to_vec_pretty(&arc).unwrap_or_default());
                let _ = archive_path; // (location mirrors archive_path under the per-case HOME)
            }
            let out = std::process::Command::new(cli_bin())
                .args(["bisync", "--dry-run"])
                .arg(&ra)
                .arg(&rb)
                .env("HOME", &home)
                .env("HOSTNAME", "vhost")
                .env("RUST_LOG", "off")
                .output()
                .unwrap_or_else(|e| machinery_error(format!("spawn copia: {e}")));
            let stdout = String::from_utf8_lossy(&out.stdout).into_owned();
            let va: V = if a > 0 { Some((a as u8, false)) } else { None };
            let vb: V = if b > 0 { Some((b as u8, false)) } else { None };
            let vz: V = if (1..4).contains(&z) { Some((z as u8, false)) } else { None };
            let want = table(va, vb, vz);
            let want_line = if want == Action::Noop { None } else { Some(format!("{want:?}")) };
            let got_line = stdout.lines().find(|l| l.trim_end().ends_with(" f") || l.trim_end().ends_with("\tf")).map(|l| l.split_whitespace().next().unwrap_or("").to_string());
            let detail = json!({"a": a, "b": b, "base": z, "stdout": stdout, "exit": out.status.code()});
            if out.status.code() != Some(0) {
                return Some(Violation::new("dry_run_binding", format!("bisync --dry-run exit {:?}", out.status.code()), detail));
            }
            if got_line != want_line {
                return Some(Violation::new("dry_run_binding", format!("bisync --dry-run printed {got_line:?} for f, table says {want_line:?} (a={a}, b={b}, base={z})"), detail));
            }
            None
        })
        .collect()
}

pub fn run(ctx: &Ctx) -> ! {
    let labs = labelings(ctx.seed);
    if let Some(rp) = &ctx.replay {
        let v: Value = serde_json::from_slice(&std::fs::read(rp).unwrap_or_default()).unwrap_or(Value::Null);
        let d = &v["detail"];
        let mut vs = Vec::new();
        if d.get("tree_index").is_some() {
            let idx = d["tree_index"].as_u64().unwrap_or(0) as usize;
            vs.extend(check_tree(idx, d["paths"].as_u64().unwrap_or(2) as usize, d["universe"].as_u64().unwrap_or(0) as usize, d["trust"].as_bool().unwrap_or(true), &labs[0].1));
            vs.extend(check_tree(idx, d["paths"].as_u64().unwrap_or(2) as usize, d["universe"].as_u64().unwrap_or(0) as usize, d["trust"].as_bool().unwrap_or(true), &labs[6].1));
        } else if d.get("a").is_some_and(Value::is_string) {
            let ln = d["labeling"].as_str().unwrap_or("small");
            let l = labs.iter().find(|(n, _)| n == ln).map_or(labs[0].1, |x| x.1);
            vs.extend(check_triple(vparse(&d["a"]), vparse(&d["b"]), vparse(&d["base"]), ln, &l));
        } else {
            let mut n = 0;
            vs.extend(lean_binding(&mut n));
            vs.extend(dryrun_binding(&mut n));
        }
        let mut rep = Report::new("exploration");
        rep.set("evaluations", 2u64).set("distinct_nontrivial", 2u64).set("rule", "replay").set("samples", json!([d]));
        finish(ctx, rep, vs);
    }
    let vals = all_values();
    let mut violations = Vec::new();
    let mut evals = 0u64;
    let mut nontrivial = 0u64;
    for (ln, l) in &labs {
        for &a in &vals {
            for &b in &vals {
                for &z in &vals {
                    evals += 1;
                    if table(a, b, z) != Action::Noop && ln == "small" {
                        nontrivial += 1;
                    }
                    violations.extend(check_triple(a, b, z, ln, l));
                }
            }
        }
    }
    let l0 = labs[0].1;
    let l1 = labs[6].1;
    // (universe, number of paths): three 3-path universes always; one 4-path universe in thorough
    let mut plans: Vec<(usize, usize)> = vec![(0, 3), (1, 3), (2, 3)];
    if ctx.tier.is_thorough() {
        plans.push((1, 4));
    }
    for (uni, npaths) in plans {
        let total = 64usize.pow(npaths as u32);
        let tv: Vec<Violation> = (0..total)
            .into_par_iter()
            .flat_map_iter(|i| {
                let mut o = Vec::new();
                for t in [true, false] {
                    o.extend(check_tree(i, npaths, uni, t, &l0));
                    o.extend(check_tree(i, npaths, uni, t, &l1));
                }
                o
            })
            .collect();
        evals += (total * 4) as u64;
        nontrivial += (total * 2) as u64 - 2;
        violations.extend(tv.into_iter().take(10));
    }
    let mut lean_rows = 0u64;
    violations.extend(lean_binding(&mut lean_rows));
    let mut dry_rows = 0u64;
    violations.extend(dryrun_binding(&mut dry_rows));
    let mut rep = Report::new("exploration");
    rep.set("evaluations", evals + lean_rows + dry_rows)
        .set("distinct_nontrivial", nontrivial)
        .set("rule", "all 343 triples over {absent} ∪ {d1,d2,d3}×{File,Symlink} under 17 digest labellings (incl. digests differing in one byte, extremes, all permutations), checked against a table written from the property text, mirror symmetry and no-delete-without-base; all (a,b,base) maps over three 3-path universes (plus one 4-path universe in thorough), chosen so that byte order and component order of the paths disagree, × both trust settings × 2 labellings; non-trivial = the expected action is not Noop")
        .set("lean_model_rows_compared", lean_rows)
        .set("dry_run_states_compared", dry_rows)
        .set("samples", json!([
            {"a":"d1:File","b":"absent","base":"d1:File","expect":"DeleteA"},
            {"a":"d1:File","b":"d1:Symlink","base":"d1:File","expect":"PropagateBtoA"},
            {"tree":{"p":["d1","d2","d3"],"q":["absent","d1","d1"]},"trust":false}
        ]))
        .set("exhaustive", true);
    rep.assume("the Lean model's single Conflict stands for both Rust conflict kinds; Lean is used as an evaluator of the repository's own spec, not as a prover");
    finish(ctx, rep, violations);
}
