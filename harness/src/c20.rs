//! C20 — codecs round-trip and reject malformed input without crashing.

use crate::common::*;
use crate::deltacases::*;
use copia::{Codec, FrameHeader, Message, MessageType, PROTOCOL_VERSION};
const MAX_PAYLOAD_SIZE: u32 = 16 * 1024 * 1024; // the 16 MiB bound stated in the property
use copia::{CopiaSync, Delta, DeltaOp, Signature, StrongHash, Sync as _};
use rayon::prelude::*;
use serde_json::{json, Value};
use std::io::Cursor;
use std::sync::atomic::{AtomicU64, Ordering};

const ALLOC_BOUND: usize = 16 * 1024 * 1024 + 64 * 1024;
const TYPES: [MessageType; 7] = [MessageType::SignatureRequest, MessageType::SignatureResponse, MessageType::DeltaData, MessageType::Ack, MessageType::Error, MessageType::Ping, MessageType::Pong];

/// Writer accepting at most `cap` bytes per write call (default write_vectored = first non-empty buffer).
struct CapW {
    out: Vec<u8>,
    cap: usize,
}
impl std::io::Write for CapW {
    fn write(&mut self, b: &[u8]) -> std::io::Result<usize> {
        let n = b.len().min(self.cap);
        self.out.extend_from_slice(&b[..n]);
        Ok(n)
    }
    fn write_vectored(&mut self, bufs: &[std::io::IoSlice<'_>]) -> std::io::Result<usize> {
        // a vectored writer that honours the cap across buffers
        let mut left = self.cap;
        let mut n = 0;
        for b in bufs {
            let k = b.len().min(left);
            self.out.extend_from_slice(&b[..k]);
            n += k;
            left -= k;
            if left == 0 {
                break;
            }
        }
        Ok(n)
    }
    fn flush(&mut self) -> std::io::Result<()> {
        Ok(())
    }
}

fn v(kind: &str, msg: String, detail: Value) -> Violation {
    Violation::new(kind, msg, detail)
}

// ───────────── header space ─────────────

fn header_part(evals: &AtomicU64, nontrivial: &AtomicU64) -> Vec<Violation> {
    let magics: [[u8; 4]; 5] = [*b"COPA", *b"COPB", *b"cOPA", [0, 0, 0, 0], *b"COP\0"];
    let lengths: [u32; 7] = [0, 1, (1 << 24) - 1, 1 << 24, (1 << 24) + 1, 1 << 31, u32::MAX];
    let flags: [u16; 3] = [0, 1, 0xFFFF];
    let out: Vec<Violation> = (0..=255u8)
        .into_par_iter()
        .flat_map_iter(|ty| {
            let mut o = Vec::new();
            let mut n = 0u64;
            let mut nt = 0u64;
            for magic in magics {
                for len in lengths {
                    for ver in 0..=255u8 {
                        for fl in flags {
                            let l = len.to_le_bytes();
                            let f = fl.to_le_bytes();
                            let buf = [magic[0], magic[1], magic[2], magic[3], l[0], l[1], l[2], l[3], ty, ver, f[0], f[1]];
                            n += 1;
                            let want_ok = magic == *b"COPA" && ver == 1 && (1..=7).contains(&ty) && len <= (1 << 24);
                            if want_ok {
                                nt += 1;
                            }
                            let r1 = catch(|| FrameHeader::decode(&buf));
                            let r2 = catch(|| FrameHeader::read_from(&mut &buf[..]));
                            let det = json!({"part":"header","buf":hex(&buf)});
                            match (&r1, &r2) {
                                (Ok(a), Ok(b)) => {
                                    if a.is_ok() != want_ok || b.is_ok() != want_ok {
                                        if o.len() < 3 {
                                            o.push(v("header_accepts_invalid", format!("header {} : decode ok={} read_from ok={}, must be ok={want_ok}", hex(&buf), a.is_ok(), b.is_ok()), det));
                                        }
                                    } else if let (Ok(h), Ok(h2)) = (a, b) {
                                        if h != h2 || h.magic != magic || h.length != len || h.msg_type as u8 != ty || h.version != ver || h.flags != fl || h.encode() != buf {
                                            if o.len() < 3 {
                                                o.push(v("header_roundtrip", format!("header {} decodes to different fields / re-encodes differently", hex(&buf)), det));
                                            }
                                        }
                                    }
                                }
                                _ => {
                                    if o.len() < 3 {
                                        o.push(v("panic", format!("header decode panicked on {}", hex(&buf)), det));
                                    }
                                }
                            }
                        }
                    }
                }
            }
            evals.fetch_add(n, Ordering::Relaxed);
            nontrivial.fetch_add(nt, Ordering::Relaxed);
            o
        })
        .collect();
    let mut out = out;
    for t in TYPES {
        for len in lengths {
            evals.fetch_add(1, Ordering::Relaxed);
            let h = FrameHeader::new(t, len);
            let e = h.encode();
            if &e[0..4] != b"COPA" || e[9] != 1 || e[4..8] != len.to_le_bytes() || e[8] != t as u8 || e[10] != 0 || e[11] != 0 {
                out.push(v("header_encode", format!("FrameHeader::new({t:?},{len}).encode() = {}", hex(&e)), json!({"part":"header_encode","type":t as u8,"len":len})));
            }
            let mut w = Vec::new();
            if h.write_to(&mut w).is_err() || w != e {
                out.push(v("header_encode", "write_to differs from encode".into(), json!({"part":"header_encode","type":t as u8,"len":len})));
            }
        }
    }
    out
}

// ───────────── messages ─────────────

fn sample_sigs_deltas(seed: u64) -> (Vec<Signature>, Vec<Delta>) {
    let strs = sigma3_strings(3);
    let mut sigs = Vec::new();
    let mut deltas = Vec::new();
    for bs in [1usize, 2] {
        for b in &strs {
            let sig = Signature::generate(&mut &b[..], bs).unwrap_or_else(|e| machinery_error(format!("{e}")));
            for s in strs.iter().step_by(5) {
                if let Ok(d) = CopiaSync::new().delta(&s[..], &sig) {
                    deltas.push(d);
                }
            }
            sigs.push(sig);
        }
    }
    let big = junk(seed, 5, 70_000);
    let sig = Signature::generate(&mut &big[..], 512).unwrap_or_else(|e| machinery_error(format!("{e}")));
    let mut src = big.clone();
    src.splice(1000..1000, [1, 2, 3]);
    deltas.push(CopiaSync::new().delta(&src[..], &sig).unwrap_or_else(|e| machinery_error(format!("{e}"))));
    sigs.push(sig);
    deltas.push(Delta::new(0, 0, 0));
    deltas.push(Delta { block_size: u32::MAX, source_size: u64::MAX, basis_size: u64::MAX, ops: vec![DeltaOp::copy(u64::MAX, u32::MAX), DeltaOp::literal(vec![])], checksum: StrongHash::from_bytes([0xFF; 32]) });
    sigs.push(Signature { block_size: usize::MAX, file_size: u64::MAX, blocks: vec![] });
    (sigs, deltas)
}

fn message_menu(seed: u64) -> Vec<Message> {
    let ids = [0u64, 1, u64::MAX];
    let strings = [String::new(), "a".to_string(), "üñí-日本語".to_string(), "x".repeat(70_000)];
    let (sigs, deltas) = sample_sigs_deltas(seed);
    let mut m = Vec::new();
    for &id in &ids {
        for bs in [0u32, 1, 2048, u32::MAX] {
            m.push(Message::SignatureRequest { file_id: id, block_size: bs });
        }
        for s in &strings {
            m.push(Message::Ack { file_id: id, success: id % 2 == 0, message: Some(s.clone()) });
        }
        m.push(Message::Ack { file_id: id, success: true, message: None });
        m.push(Message::Ping { seq: id });
        m.push(Message::Pong { seq: id });
    }
    for code in [0u32, 1, u32::MAX] {
        for s in &strings {
            m.push(Message::Error { code, message: s.clone() });
        }
    }
    for (i, s) in sigs.into_iter().enumerate() {
        m.push(Message::SignatureResponse { file_id: ids[i % 3], signature: s });
    }
    for (i, d) in deltas.into_iter().enumerate() {
        m.push(Message::DeltaData { file_id: ids[i % 3], delta: d });
    }
    m
}

fn message_part(seed: u64, evals: &AtomicU64, nontrivial: &AtomicU64) -> (Vec<Violation>, Vec<Vec<u8>>) {
    let menu = message_menu(seed);
    let mut out = Vec::new();
    let mut encodings: Vec<Vec<u8>> = Vec::new();
    let mut stream = Vec::new();
    for (i, m) in menu.iter().enumerate() {
        evals.fetch_add(1, Ordering::Relaxed);
        nontrivial.fetch_add(1, Ordering::Relaxed);
        let det = json!({"part":"message","index":i});
        let enc = match m.encode() {
            Ok(e) => e,
            Err(e) => {
                out.push(v("message_roundtrip", format!("encode failed: {e}"), det));
                continue;
            }
        };
        match Message::decode(&enc) {
            Ok(d) if &d == m => {}
            other => out.push(v("message_roundtrip", format!("Message decode(encode(m)) != m for menu item {i}: {:?}", other.map(|_| "different value")), det.clone())),
        }
        let mut w = Vec::new();
        let codec = Codec::new();
        if let Err(e) = codec.write_message(&mut w, m) {
            out.push(v("message_roundtrip", format!("write_message failed: {e}"), det));
            continue;
        }
        if w.len() < 12 || &w[0..4] != b"COPA" || w[9] != PROTOCOL_VERSION || w[8] != m.msg_type() as u8 || u32::from_le_bytes([w[4], w[5], w[6], w[7]]) as usize != w.len() - 12 || w[12..] != enc[..] {
            out.push(v("frame_format", format!("write_message frame malformed for menu item {i}: header {}", hex(&w[..12.min(w.len())])), det.clone()));
        }
        // a writer that accepts only a few bytes per call must receive exactly the same bytes
        for cap in [1usize, 5, 11, 12, 13, 64] {
            if enc.len() > 5000 && cap < 64 {
                continue;
            }
            let mut sw = CapW { out: Vec::new(), cap };
            if Codec::new().write_message(&mut sw, m).is_err() || sw.out != w {
                out.push(v("frame_format", format!("write_message through a writer accepting <= {cap} bytes per call produced different bytes for menu item {i} (first 16: {})", hex(&sw.out[..sw.out.len().min(16)])), det.clone()));
                break;
            }
        }
        let mut c2 = Codec::new();
        match c2.read_message(&mut &w[..]) {
            Ok(d) if &d == m => {}
            _ => out.push(v("message_roundtrip", format!("read_message(write_message(m)) != m for menu item {i}"), det)),
        }
        stream.extend_from_slice(&w);
        if enc.len() < 400 {
            encodings.push(w);
        }
    }
    // the whole menu as one stream through one codec
    let mut c = Codec::new();
    let mut r = &stream[..];
    for (i, m) in menu.iter().enumerate() {
        match c.read_message(&mut r) {
            Ok(d) if &d == m => {}
            _ => {
                out.push(v("message_roundtrip", format!("stream of all messages: item {i} did not come back"), json!({"part":"message_stream","index":i})));
                break;
            }
        }
    }
    // bincode file round-trip of signatures and deltas (what the CLI writes)
    let (sigs, deltas) = sample_sigs_deltas(seed);
    for s in &sigs {
        evals.fetch_add(1, Ordering::Relaxed);
        let b = bincode::serialize(s).unwrap_or_default();
        if bincode::deserialize::<Signature>(&b).ok().as_ref() != Some(s) {
            out.push(v("file_roundtrip", "signature bincode round-trip".into(), json!({"part":"file_sig"})));
        }
    }
    for d in &deltas {
        evals.fetch_add(1, Ordering::Relaxed);
        let b = bincode::serialize(d).unwrap_or_default();
        if bincode::deserialize::<Delta>(&b).ok().as_ref() != Some(d) {
            out.push(v("file_roundtrip", "delta bincode round-trip".into(), json!({"part":"file_delta"})));
        }
    }
    // a message whose encoding exceeds 16 MiB must be refused by write_message
    {
        evals.fetch_add(1, Ordering::Relaxed);
        let big = Message::DeltaData { file_id: 1, delta: Delta { block_size: 512, source_size: 17 << 20, basis_size: 0, ops: vec![DeltaOp::literal(vec![7u8; (16 << 20) + 1])], checksum: StrongHash::zero() } };
        let mut w = Vec::new();
        if Codec::new().write_message(&mut w, &big).is_ok() {
            out.push(v("oversize_accepted", "write_message accepted a payload larger than 16 MiB".into(), json!({"part":"oversize_write"})));
        }
        // and a reader must refuse a header announcing 16 MiB + 1
        let mut h = FrameHeader::new(MessageType::DeltaData, MAX_PAYLOAD_SIZE + 1).encode().to_vec();
        h.extend_from_slice(&[0u8; 64]);
        if Codec::new().read_message(&mut &h[..]).is_ok() {
            out.push(v("oversize_accepted", "read_message accepted a header announcing 16 MiB + 1".into(), json!({"part":"oversize_read"})));
        }
        // exactly 16 MiB announced but only a few bytes present: an error, with at most the bound allocated
        let mut h = FrameHeader::new(MessageType::Ping, MAX_PAYLOAD_SIZE).encode().to_vec();
        h.extend_from_slice(&[0u8; 8]);
        let (r, max_single, _) = with_alloc_tracking(|| catch(|| Codec::new().read_message(&mut &h[..]).is_ok()));
        if r != Ok(false) || max_single > ALLOC_BOUND {
            out.push(v("alloc_bound", format!("read_message with 16 MiB announced: result {r:?}, largest allocation {max_single}"), json!({"part":"oversize_read_exact"})));
        }
    }
    (out, encodings)
}

// ───────────── codec reuse: histories of good and bad frames on ONE codec ─────────────

/// Whole, well-framed messages of several payload sizes (below and above any inline-buffer threshold a codec
/// might have) whose INNER length prefix (string / vector length) is replaced by absurd values, read through
/// `Codec::read_message`: never a panic, never a single allocation above the 16 MiB bound.
fn codec_hostile_inner_lengths(evals: &AtomicU64, nontrivial: &AtomicU64) -> Vec<Violation> {
    let mut out = Vec::new();
    let sizes = [10usize, 4000, 4097, 5000, 70_000, 1 << 20];
    let evil: [u64; 6] = [1 << 24, (1 << 24) + 1, 1 << 28, 1 << 32, 1 << 63, u64::MAX];
    for &n in &sizes {
        let msgs: Vec<(&str, Message)> = vec![
            ("Error", Message::Error { code: 5, message: "e".repeat(n) }),
            ("Ack", Message::Ack { file_id: 3, success: false, message: Some("m".repeat(n)) }),
        ];
        for (mname, m) in msgs {
            let mut frame = Vec::new();
            if Codec::new().write_message(&mut frame, &m).is_err() {
                machinery_error("cannot encode a valid message");
            }
            // the string's own length prefix: the u64 LE encoding of n, found once in the payload
            let needle = (n as u64).to_le_bytes();
            let hits: Vec<usize> = (12..frame.len().saturating_sub(8)).filter(|&i| frame[i..i + 8] == needle).take(2).collect();
            let Some(&off) = hits.first() else { machinery_error(format!("length prefix of {mname}({n}) not found")) };
            for &e in &evil {
                let mut f = frame.clone();
                f[off..off + 8].copy_from_slice(&e.to_le_bytes());
                evals.fetch_add(1, Ordering::Relaxed);
                nontrivial.fetch_add(1, Ordering::Relaxed);
                let (res, max_single, _) = with_alloc_tracking(|| catch(std::panic::AssertUnwindSafe(|| Codec::new().read_message(&mut &f[..]).is_ok())));
                let det = json!({"part":"codec_inner_length","message":mname,"payload":n,"declared":e.to_string()});
                match res {
                    Err(p) => out.push(v("panic", format!("Codec::read_message panicked on a whole {mname} frame ({n}-byte string) whose string length says {e}: {p}"), det)),
                    Ok(true) => out.push(v("accepts_malformed", format!("Codec::read_message returned a value for a {mname} frame whose string length says {e}"), det)),
                    Ok(false) if max_single > ALLOC_BOUND => out.push(v("alloc_bound", format!("Codec::read_message made a single allocation of {max_single} bytes on a {}-byte {mname} frame whose string length says {e}", f.len()), det)),
                    Ok(false) => {}
                }
                if out.len() > 4 {
                    return out;
                }
            }
        }
    }
    out
}

fn codec_history_part(evals: &AtomicU64, nontrivial: &AtomicU64) -> Vec<Violation> {
    let good: Vec<Message> = vec![Message::Ping { seq: 6 }, Message::Pong { seq: 9 }, Message::Ack { file_id: 3, success: true, message: Some("ok".into()) }, Message::Error { code: 5, message: "e".repeat(5000) }];
    let frame = |m: &Message| {
        let mut w = Vec::new();
        let _ = Codec::new().write_message(&mut w, m);
        w
    };
    // frame kinds: G0..G3 good; BP = valid header, undecodable payload; TR = truncated payload (EOF inside);
    // BH = bad header; HUGE = valid header announcing 1 MiB, only 3 bytes present
    let mut menu: Vec<(String, Vec<u8>, Option<Message>)> = good.iter().enumerate().map(|(i, m)| (format!("G{i}"), frame(m), Some(m.clone()))).collect();
    let mut bp = FrameHeader::new(MessageType::Ack, 9).encode().to_vec();
    bp.extend_from_slice(&[0xFF; 9]);
    menu.push(("BP".into(), bp, None));
    let mut tr = frame(&good[3]);
    tr.truncate(12 + 100);
    menu.push(("TR".into(), tr, None));
    menu.push(("BH".into(), b"XOPA\x00\x00\x00\x00\x06\x01\x00\x00".to_vec(), None));
    let mut hg = FrameHeader::new(MessageType::Ping, 1 << 20).encode().to_vec();
    hg.extend_from_slice(&[1, 2, 3]);
    menu.push(("HUGE".into(), hg, None));
    let n = menu.len();
    let mut out = Vec::new();
    // all sequences of length 1..=3, each frame delivered through its own reader to one shared codec
    for len in 1..=3usize {
        for idx in 0..n.pow(len as u32) {
            let mut k = idx;
            let seq: Vec<usize> = (0..len).map(|_| { let x = k % n; k /= n; x }).collect();
            evals.fetch_add(1, Ordering::Relaxed);
            if seq.iter().any(|&i| menu[i].2.is_none()) && seq.iter().any(|&i| menu[i].2.is_some()) {
                nontrivial.fetch_add(1, Ordering::Relaxed);
            }
            let names: Vec<&str> = seq.iter().map(|&i| menu[i].0.as_str()).collect();
            let (res, max_single, _) = with_alloc_tracking(|| {
                catch(std::panic::AssertUnwindSafe(|| {
                    let mut codec = Codec::new();
                    for &i in &seq {
                        let r = codec.read_message(&mut &menu[i].1[..]);
                        match (&menu[i].2, r) {
                            (Some(m), Ok(got)) if &got == m => {}
                            (Some(_), other) => return Some(format!("good frame {} came back as {:?}", menu[i].0, other.map(|m| format!("{m:?}").chars().take(60).collect::<String>()))),
                            (None, Ok(got)) => return Some(format!("bad frame {} decoded to a value: {:?}", menu[i].0, format!("{got:?}").chars().take(60).collect::<String>())),
                            (None, Err(_)) => {}
                        }
                    }
                    None
                }))
            });
            let det = json!({"part":"codec_history","sequence":names});
            match res {
                Err(p) => out.push(v("panic", format!("codec panicked on history {names:?}: {p}"), det)),
                Ok(Some(m)) => out.push(v("codec_history", format!("one Codec, frames {names:?} (each from its own reader): {m}"), det)),
                Ok(None) if max_single > ALLOC_BOUND => out.push(v("alloc_bound", format!("history {names:?}: single allocation of {max_single}"), det)),
                Ok(None) => {}
            }
            if out.len() > 5 {
                return out;
            }
        }
    }
    // concatenated stream: after a well-framed but undecodable payload the stream is still in step
    for a in 0..4usize {
        for b in 0..4usize {
            evals.fetch_add(1, Ordering::Relaxed);
            let mut stream = menu[a].1.clone();
            stream.extend_from_slice(&menu[4].1);
            stream.extend_from_slice(&menu[b].1);
            let mut codec = Codec::new();
            let mut r = &stream[..];
            let r1 = codec.read_message(&mut r).ok();
            let r2 = codec.read_message(&mut r).is_err();
            let r3 = codec.read_message(&mut r).ok();
            if r1 != menu[a].2 || !r2 || r3 != menu[b].2 {
                out.push(v("codec_history", format!("stream [{}, BP, {}] on one codec: first ok={}, middle rejected={}, last ok={}", menu[a].0, menu[b].0, r1 == menu[a].2, r2, r3 == menu[b].2), json!({"part":"codec_stream","a":a,"b":b})));
            }
        }
    }
    out
}

// ───────────── totality ─────────────

fn decoders(bytes: &[u8]) -> Option<(&'static str, String)> {
    let (r, max_single, _) = with_alloc_tracking(|| {
        catch(|| {
            let _ = FrameHeader::read_from(&mut &bytes[..]);
            if bytes.len() >= 12 {
                let mut b = [0u8; 12];
                b.copy_from_slice(&bytes[..12]);
                if let Ok(h) = FrameHeader::decode(&b) {
                    if h.magic != *b"COPA" || h.version != 1 || h.length > MAX_PAYLOAD_SIZE {
                        return Some("header_accepts_invalid");
                    }
                }
            }
            let _ = Message::decode(bytes);
            let mut c = Codec::new();
            let mut r = bytes;
            // read messages until error (a stream may hold several)
            for _ in 0..4 {
                if c.read_message(&mut r).is_err() {
                    break;
                }
            }
            let _ = bincode::deserialize::<Signature>(bytes);
            let _ = bincode::deserialize::<Delta>(bytes);
            None
        })
    });
    match r {
        Err(p) => Some(("panic", format!("decoder panicked: {p}"))),
        Ok(Some(k)) => Some((k, "decoder accepted an invalid header".into())),
        Ok(None) if max_single > ALLOC_BOUND => Some(("alloc_bound", format!("a decoder requested a single allocation of {max_single} bytes (> 16 MiB + 64 KiB)"))),
        Ok(None) => None,
    }
}

fn totality_part(thorough: bool, encodings: &[Vec<u8>], seed: u64, evals: &AtomicU64, nontrivial: &AtomicU64) -> Vec<Violation> {
    let mut out = Vec::new();
    // (a) all byte strings of length <= 2 over all values
    let mut small: Vec<Vec<u8>> = vec![vec![]];
    for a in 0..=255u8 {
        small.push(vec![a]);
    }
    for a in 0..=255u8 {
        for b in 0..=255u8 {
            small.push(vec![a, b]);
        }
    }
    let alpha = [0x00u8, 0x01, 0x02, 0x07, 0x08, 0x7F, 0x80, 0xFF];
    let maxl = if thorough { 6 } else { 5 };
    let mut idx_space: Vec<(usize, usize)> = Vec::new(); // (len, index)
    for len in 3..=maxl {
        idx_space.push((len, 8usize.pow(len as u32)));
    }
    let r: Vec<Violation> = small
        .par_iter()
        .filter_map(|b| {
            evals.fetch_add(1, Ordering::Relaxed);
            decoders(b).map(|(k, m)| v(k, format!("{m} on input {}", hex(b)), json!({"part":"totality","bytes":hex(b)})))
        })
        .collect();
    out.extend(r.into_iter().take(5));
    for (len, cnt) in idx_space {
        let r: Vec<Violation> = (0..cnt)
            .into_par_iter()
            .filter_map(|i| {
                let mut k = i;
                let b: Vec<u8> = (0..len)
                    .map(|_| {
                        let x = alpha[k % 8];
                        k /= 8;
                        x
                    })
                    .collect();
                evals.fetch_add(1, Ordering::Relaxed);
                decoders(&b).map(|(kk, m)| v(kk, format!("{m} on input {}", hex(&b)), json!({"part":"totality","bytes":hex(&b)})))
            })
            .collect();
        out.extend(r.into_iter().take(5));
    }
    // (b) truncations and per-position byte mutations of valid encodings (framed messages, sig and delta files)
    let mut valid: Vec<Vec<u8>> = encodings.iter().take(if thorough { 60 } else { 30 }).cloned().collect();
    let (sigs, deltas) = sample_sigs_deltas(seed);
    for s in sigs.iter().filter(|s| s.blocks.len() <= 3).take(6) {
        valid.push(bincode::serialize(s).unwrap_or_default());
    }
    for d in deltas.iter().filter(|d| d.ops.len() <= 3).take(8) {
        valid.push(bincode::serialize(d).unwrap_or_default());
    }
    let r: Vec<Violation> = valid
        .par_iter()
        .flat_map_iter(|enc| {
            let mut o = Vec::new();
            for t in 0..enc.len() {
                evals.fetch_add(1, Ordering::Relaxed);
                nontrivial.fetch_add(1, Ordering::Relaxed);
                if let Some((k, m)) = decoders(&enc[..t]) {
                    o.push(v(k, format!("{m} on a truncation ({t} of {} bytes)", enc.len()), json!({"part":"totality","bytes":hex(&enc[..t])})));
                }
            }
            for pos in 0..enc.len() {
                let b0 = enc[pos];
                for nb in [0x00, 0x01, 0x7F, 0x80, 0xFF, b0 ^ 0x01, b0 ^ 0x80] {
                    if nb == b0 {
                        continue;
                    }
                    let mut e = enc.clone();
                    e[pos] = nb;
                    evals.fetch_add(1, Ordering::Relaxed);
                    nontrivial.fetch_add(1, Ordering::Relaxed);
                    if let Some((k, m)) = decoders(&e) {
                        if o.len() < 3 {
                            o.push(v(k, format!("{m} on a one-byte mutation at {pos}"), json!({"part":"totality","bytes":hex(&e)})));
                        }
                    }
                }
            }
            o
        })
        .collect();
    out.extend(r.into_iter().take(10));
    // (c) field-level corruption of signature/delta encodings
    for (name, enc) in field_corruptions(seed) {
        evals.fetch_add(1, Ordering::Relaxed);
        nontrivial.fetch_add(1, Ordering::Relaxed);
        if let Some((k, m)) = decoders(&enc) {
            out.push(v(k, format!("{m} on field corruption {name}"), json!({"part":"totality_field","name":name,"bytes":hex(&enc[..enc.len().min(200)])})));
        }
    }
    out
}

/// Field-level corruptions of one real signature and one real delta encoding (bincode layout;
/// offsets are self-validated against the original values).
fn field_corruptions(seed: u64) -> Vec<(String, Vec<u8>)> {
    let basis = junk(seed, 41, 3000);
    let mut source = basis.clone();
    source.splice(700..700, [9u8; 20]);
    let sig = Signature::generate(&mut &basis[..], 512).unwrap_or_else(|e| machinery_error(format!("{e}")));
    let delta = CopiaSync::new().delta(&source[..], &sig).unwrap_or_else(|e| machinery_error(format!("{e}")));
    let se = bincode::serialize(&sig).unwrap_or_default();
    let de = bincode::serialize(&delta).unwrap_or_default();
    let rd64 = |b: &[u8], o: usize| u64::from_le_bytes(b[o..o + 8].try_into().unwrap_or([0; 8]));
    if rd64(&se, 0) != 512 || rd64(&se, 8) != 3000 || rd64(&se, 16) != sig.blocks.len() as u64 {
        machinery_error("signature bincode layout is not (block_size u64, file_size u64, count u64, …)");
    }
    if u32::from_le_bytes(de[0..4].try_into().unwrap_or([0; 4])) != 512 || rd64(&de, 4) != source.len() as u64 || rd64(&de, 12) != 3000 || rd64(&de, 20) != delta.ops.len() as u64 {
        machinery_error("delta bincode layout is not (block_size u32, source_size u64, basis_size u64, op count u64, …)");
    }
    let mut out = Vec::new();
    let put64 = |b: &[u8], o: usize, val: u64| {
        let mut x = b.to_vec();
        x[o..o + 8].copy_from_slice(&val.to_le_bytes());
        x
    };
    for bs in [0u64, 1, 3, 256, 1000, 131_072, 1 << 63, u64::MAX, (1 << 32) + 512, (1 << 40) + 2048, (255 << 56) + 65536] {
        out.push((format!("sig.block_size={bs}"), put64(&se, 0, bs)));
    }
    // every byte of both headers, three corruptions each
    for pos in 0..24usize {
        for x in [0x01u8, 0x80, 0xFF] {
            let mut a = se.clone();
            a[pos] ^= x;
            out.push((format!("sig.byte[{pos}]^={x:#x}"), a));
        }
    }
    for pos in 0..28usize {
        for x in [0x01u8, 0x80, 0xFF] {
            let mut a = de.clone();
            a[pos] ^= x;
            out.push((format!("delta.byte[{pos}]^={x:#x}"), a));
        }
    }
    let n = sig.blocks.len() as u64;
    for c in [0u64, n - 1, n + 1, 1 << 32, 1 << 63, u64::MAX] {
        out.push((format!("sig.blocks.len={c}"), put64(&se, 16, c)));
    }
    // every per-block field of every block: index (u32), weak hash (u32), strong hash (32 bytes)
    let per_block = (se.len() - 24) / sig.blocks.len().max(1);
    if per_block != 40 || u32::from_le_bytes(se[24..28].try_into().unwrap_or([9; 4])) != 0 || (sig.blocks.len() > 1 && u32::from_le_bytes(se[64..68].try_into().unwrap_or([9; 4])) != 1) {
        machinery_error("signature bincode layout is not 40 bytes per block starting with the u32 block index");
    }
    for k in 0..sig.blocks.len() {
        let o = 24 + 40 * k;
        for idx in [n as u32, n as u32 + 1, 0x7FFF_FFFF, u32::MAX, ((k as u64 + 1) % n) as u32] {
            let mut x = se.clone();
            x[o..o + 4].copy_from_slice(&idx.to_le_bytes());
            out.push((format!("sig.block[{k}].index={idx}"), x));
        }
        for (what, off) in [("weak", o + 4), ("weak", o + 7), ("strong", o + 8), ("strong", o + 39)] {
            let mut x = se.clone();
            x[off] ^= 0x81;
            out.push((format!("sig.block[{k}].{what}@{off}^=0x81"), x));
        }
    }
    for fs in [0u64, 1, u64::MAX] {
        out.push((format!("sig.file_size={fs}"), put64(&se, 8, fs)));
    }
    for bs in [0u32, 1, 3, 256, 1000, 131_072, u32::MAX] {
        let mut x = de.clone();
        x[0..4].copy_from_slice(&bs.to_le_bytes());
        out.push((format!("delta.block_size={bs}"), x));
    }
    let n = delta.ops.len() as u64;
    for c in [0u64, n - 1, n + 1, 1 << 32, 1 << 63, u64::MAX] {
        out.push((format!("delta.ops.len={c}"), put64(&de, 20, c)));
    }
    for s in [0u64, 1, u64::MAX] {
        out.push((format!("delta.source_size={s}"), put64(&de, 4, s)));
        out.push((format!("delta.basis_size={s}"), put64(&de, 12, s)));
    }
    // first op: variant tag (u32) at 28; make it an unknown variant; and if it is a literal, corrupt its length
    let mut x = de.clone();
    x[28..32].copy_from_slice(&7u32.to_le_bytes());
    out.push(("delta.op0.tag=7".into(), x));
    if let Some(DeltaOp::Literal(_)) = delta.ops.first() {
        for l in [1u64 << 32, 1 << 63, u64::MAX] {
            out.push((format!("delta.op0.literal_len={l}"), put64(&de, 32, l)));
        }
    } else {
        // first op is a copy: tag(4) offset(8) len(4) → next op at 44
        for l in [1u64 << 32, 1 << 63, u64::MAX] {
            if de.len() > 56 && u32::from_le_bytes(de[44..48].try_into().unwrap_or([0; 4])) == 1 {
                out.push((format!("delta.op1.literal_len={l}"), put64(&de, 48, l)));
            }
        }
    }
    out
}

// ───────────── CLI file readers ─────────────

fn cli_part(thorough: bool, seed: u64, evals: &AtomicU64) -> Vec<Violation> {
    let sc = Scratch::new("c20cli");
    let basis = junk(seed, 41, 3000);
    let mut source = basis.clone();
    source.splice(700..700, [9u8; 20]);
    let sig = Signature::generate(&mut &basis[..], 512).unwrap_or_else(|e| machinery_error(format!("{e}")));
    let delta = CopiaSync::new().delta(&source[..], &sig).unwrap_or_else(|e| machinery_error(format!("{e}")));
    let se = bincode::serialize(&sig).unwrap_or_default();
    let de = bincode::serialize(&delta).unwrap_or_default();
    let _ = std::fs::write(sc.path("basis"), &basis);
    let _ = std::fs::write(sc.path("source"), &source);
    // control
    let _ = std::fs::write(sc.path("ok.sig"), &se);
    let _ = std::fs::write(sc.path("ok.delta"), &de);
    let a = |xs: &[&str]| -> Vec<std::ffi::OsString> { xs.iter().map(|x| if x.starts_with('@') { sc.path(&x[1..]).into_os_string() } else { std::ffi::OsString::from(x) }).collect() };
    let c1 = run_limited(&a(&["delta", "@source", "@ok.sig", "-o", "@ctl.delta"]), 10);
    let c2 = run_limited(&a(&["patch", "@basis", "@ok.delta", "-o", "@ctl.out"]), 10);
    if c1.0 != Some(0) || c2.0 != Some(0) {
        machinery_error(format!("CLI control under RLIMIT_AS failed: {c1:?} {c2:?}"));
    }
    let mut files: Vec<(String, bool, Vec<u8>)> = Vec::new(); // (name, is_sig, bytes)
    for (name, enc) in field_corruptions(seed) {
        files.push((name.clone(), name.starts_with("sig."), enc));
    }
    let step = if thorough { 1 } else { 7 };
    for t in (0..se.len()).step_by(step) {
        files.push((format!("sig truncated@{t}"), true, se[..t].to_vec()));
    }
    for t in (0..de.len()).step_by(step) {
        files.push((format!("delta truncated@{t}"), false, de[..t].to_vec()));
    }
    files
        .par_iter()
        .enumerate()
        .filter_map(|(i, (name, is_sig, bytes))| {
            evals.fetch_add(1, Ordering::Relaxed);
            let f = sc.path(&format!("f{i}"));
            let o = sc.path(&format!("o{i}"));
            let _ = std::fs::write(&f, bytes);
            let args: Vec<std::ffi::OsString> = if *is_sig {
                vec!["delta".into(), sc.path("source").into(), f.clone().into(), "-o".into(), o.clone().into()]
            } else {
                vec!["patch".into(), sc.path("basis").into(), f.clone().into(), "-o".into(), o.clone().into()]
            };
            let (code, sig, timed_out, err) = run_limited(&args, 10);
            let det = json!({"part":"cli","name":name,"file_hex":hex(&bytes[..bytes.len().min(120)])});
            let cmdname = if *is_sig { "copia delta" } else { "copia patch" };
            if timed_out {
                return Some(v("cli_hang", format!("`{cmdname}` did not finish within 10 s on {name}"), det));
            }
            if let Some(s) = sig {
                return Some(v("cli_crash", format!("`{cmdname}` killed by signal {s} on {name}: {}", err.lines().last().unwrap_or("")), det).with("name", json!(name)));
            }
            match code {
                Some(1) if !err.trim().is_empty() => None,
                Some(0) => {
                    let well_formed = if *is_sig { bincode::deserialize::<Signature>(bytes).is_ok() } else { bincode::deserialize::<Delta>(bytes).is_ok() };
                    // a block size that is not one of the legal sizes must be REPORTED, whatever else the file decodes to
                    let bad_bs = name.split_once(".block_size=").and_then(|(_, v)| v.parse::<u128>().ok()).is_some_and(|v| !(v.is_power_of_two() && (512..=65536).contains(&v)));
                    if bad_bs {
                        Some(v("cli_accepts_invalid_block_size", format!("`{cmdname}` exit 0 on a file whose block size field is illegal ({name})"), det))
                    } else if well_formed {
                        None
                    } else {
                        Some(v("cli_accepts_malformed", format!("`{cmdname}` exit 0 on a file that does not decode ({name})"), det))
                    }
                }
                c => Some(v("cli_crash", format!("`{cmdname}` exit {c:?} with stderr {:?} on {name}", err.trim()), det)),
            }
        })
        .collect()
}

pub fn run(ctx: &Ctx) -> ! {
    let thorough = ctx.tier.is_thorough();
    let evals = AtomicU64::new(0);
    let nontrivial = AtomicU64::new(0);
    if let Some(rp) = &ctx.replay {
        let val: Value = serde_json::from_slice(&std::fs::read(rp).unwrap_or_default()).unwrap_or(Value::Null);
        let d = &val["detail"];
        let mut vs = Vec::new();
        match d["part"].as_str().unwrap_or("") {
            "totality" | "totality_field" => {
                let b = unhex(d["bytes"].as_str().unwrap_or(""));
                if let Some((k, m)) = decoders(&b) {
                    vs.push(v(k, m, d.clone()));
                }
            }
            "header" => vs.extend(header_part(&evals, &nontrivial).into_iter().filter(|x| x.detail["buf"] == d["buf"])),
            "cli" => vs.extend(cli_part(true, val["seed"].as_u64().unwrap_or(ctx.seed), &evals).into_iter().filter(|x| x.detail["name"] == d["name"])),
            "codec_history" | "codec_stream" => vs.extend(codec_history_part(&evals, &nontrivial)),
            "codec_inner_length" => vs.extend(codec_hostile_inner_lengths(&evals, &nontrivial)),
            _ => vs.extend(message_part(val["seed"].as_u64().unwrap_or(ctx.seed), &evals, &nontrivial).0),
        }
        let mut rep = Report::new("exploration");
        rep.set("evaluations", 2u64).set("distinct_nontrivial", 2u64).set("rule", "replay").set("samples", json!([d]));
        finish(ctx, rep, vs);
    }
    let mut violations = Vec::new();
    violations.extend(header_part(&evals, &nontrivial).into_iter().take(10));
    let headers = evals.load(Ordering::Relaxed);
    let (mv, encodings) = message_part(ctx.seed, &evals, &nontrivial);
    violations.extend(mv.into_iter().take(10));
    violations.extend(codec_history_part(&evals, &nontrivial).into_iter().take(6));
    violations.extend(codec_hostile_inner_lengths(&evals, &nontrivial).into_iter().take(4));
    let before = evals.load(Ordering::Relaxed);
    violations.extend(totality_part(thorough, &encodings, ctx.seed, &evals, &nontrivial).into_iter().take(20));
    let totality = evals.load(Ordering::Relaxed) - before;
    let before = evals.load(Ordering::Relaxed);
    violations.extend(cli_part(thorough, ctx.seed, &evals));
    let cli_runs = evals.load(Ordering::Relaxed) - before;
    let mut rep = Report::new("exploration");
    rep.set("evaluations", evals.load(Ordering::Relaxed))
        .set("distinct_nontrivial", nontrivial.load(Ordering::Relaxed))
        .set("rule", "headers: 5 magics x 7 lengths x all 256 type bytes x all 256 version bytes x 3 flag values through decode and read_from (accept iff COPA, version 1, type 1..7, length <= 2^24; accepted headers re-encode identically); messages: all 7 kinds over boundary field menus through encode/decode, Codec write/read (frame format checked) and bincode files; totality: every byte string of length <= 2 and every string of length <= 5/6 over 8 byte values, every truncation and 7 byte values at every position of valid encodings, field-level corruptions — into all decoders under a counting allocator; CLI: field corruptions and truncations of real .sig/.delta files under RLIMIT_AS and a timeout; non-trivial = valid header / valid message / derived from a valid encoding")
        .set("header_decodes", headers)
        .set("totality_inputs", totality)
        .set("cli_runs", cli_runs)
        .set("samples", json!([
            {"part":"header","buf":"434f5041000000010301ffff"},
            {"part":"message","kind":"Ack","file_id":"u64::MAX","message":"70000 x 'x'"},
            {"part":"totality","bytes":"ff7f0800"},
            {"part":"cli","name":"sig.block_size=1000"}
        ]))
        .set("exhaustive", true);
    rep.assume("allocation bound measured per decode call with a counting global allocator (largest single request <= 16 MiB + 64 KiB)");
    rep.assume("CLI crash/hang defined relative to RLIMIT_AS = 1 GiB and a 10 s timeout");
    finish(ctx, rep, violations);
}
