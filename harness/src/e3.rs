//! E3 — crash-point and torn-write enumeration with the LD_PRELOAD fault injector.
//! C08: bisync is crash-safe. C09: one-way delivery is atomic under a crash at any point.

use crate::common::*;
use rayon::prelude::*;
use serde_json::{json, Value};
use std::collections::{BTreeMap, BTreeSet};
use std::path::{Path, PathBuf};
use std::sync::atomic::{AtomicU64, Ordering};

pub const SHIM: &str = "/verif/build/libvshim.so";
pub const STANDIN_DIR: &str = "/verif/standin";

type Files = BTreeMap<String, Vec<u8>>;

pub fn snapshot_dir(root: &Path) -> Files {
    let mut out = Files::new();
    let mut stack = vec![root.to_path_buf()];
    while let Some(d) = stack.pop() {
        let Ok(rd) = std::fs::read_dir(&d) else { continue };
        for e in rd.flatten() {
            let p = e.path();
            let Ok(md) = std::fs::symlink_metadata(&p) else { continue };
            if md.is_dir() {
                stack.push(p);
            } else {
                let rel = p.strip_prefix(root).map(|x| x.to_string_lossy().into_owned()).unwrap_or_default();
                out.insert(rel, std::fs::read(&p).unwrap_or_default());
            }
        }
    }
    out
}

/// rel path -> (bytes, mtime whole seconds)
pub fn snapshot_meta(root: &Path) -> BTreeMap<String, (Vec<u8>, i64, i64)> {
    use std::os::unix::fs::MetadataExt;
    let mut out = BTreeMap::new();
    let mut stack = vec![root.to_path_buf()];
    while let Some(d) = stack.pop() {
        let Ok(rd) = std::fs::read_dir(&d) else { continue };
        for e in rd.flatten() {
            let p = e.path();
            let Ok(md) = std::fs::symlink_metadata(&p) else { continue };
            if md.is_dir() {
                stack.push(p);
            } else {
                let rel = p.strip_prefix(root).map(|x| x.to_string_lossy().into_owned()).unwrap_or_default();
                out.insert(rel, (std::fs::read(&p).unwrap_or_default(), md.mtime(), md.mtime_nsec()));
            }
        }
    }
    out
}

pub fn copy_dir(src: &Path, dst: &Path) {
    use std::os::unix::fs::MetadataExt;
    let _ = std::fs::create_dir_all(dst);
    let Ok(rd) = std::fs::read_dir(src) else { return };
    for e in rd.flatten() {
        let p = e.path();
        let to = dst.join(e.file_name());
        let Ok(md) = std::fs::symlink_metadata(&p) else { continue };
        if md.is_dir() {
            copy_dir(&p, &to);
        } else {
            if std::fs::copy(&p, &to).is_err() {
                machinery_error(format!("copy {} -> {}", p.display(), to.display()));
            }
            crate::c19::set_mtime(&to, md.mtime(), md.mtime_nsec());
        }
    }
}

fn wipe(d: &Path) {
    let _ = std::fs::remove_dir_all(d);
    let _ = std::fs::create_dir_all(d);
}

fn write_files(root: &Path, files: &[(&str, Vec<u8>)]) {
    for (p, b) in files {
        let full = root.join(p);
        if let Some(d) = full.parent() {
            let _ = std::fs::create_dir_all(d);
        }
        if std::fs::write(&full, b).is_err() {
            machinery_error(format!("write {}", full.display()));
        }
    }
}

// ───────────── shim log ─────────────

#[derive(Clone, Debug)]
pub struct Rec {
    pub n: u64,
    pub call: String,
    pub p1: String,
    pub p2: String,
    pub size: i64,
    pub flags: i64,
    pub copied: Option<i64>,
    pub killed_before: bool,
}

fn unesc(s: &str) -> String {
    let b = s.as_bytes();
    let mut out = Vec::new();
    let mut i = 0;
    while i < b.len() {
        if b[i] == b'\\' && i + 3 < b.len() && b[i + 1] == b'x' {
            if let Ok(v) = u8::from_str_radix(&s[i + 2..i + 4], 16) {
                out.push(v);
                i += 4;
                continue;
            }
        }
        out.push(b[i]);
        i += 1;
    }
    String::from_utf8_lossy(&out).into_owned()
}

pub fn read_log(p: &Path) -> Vec<Rec> {
    let text = std::fs::read_to_string(p).unwrap_or_default();
    let mut out: Vec<Rec> = Vec::new();
    for l in text.lines() {
        let f: Vec<&str> = l.split('\t').collect();
        if f.len() < 7 {
            continue;
        }
        if f[0] == "=" {
            if let Some(last) = out.last_mut() {
                last.copied = f[5].parse().ok();
            }
            continue;
        }
        out.push(Rec { n: f[0].parse().unwrap_or(0), call: f[2].to_string(), p1: unesc(f[3]), p2: unesc(f[4]), size: f[5].parse().unwrap_or(0), flags: f[6].parse().unwrap_or(0), copied: None, killed_before: f.get(7) == Some(&"KILLED-BEFORE") });
    }
    out.sort_by_key(|r| r.n);
    out
}

fn normalise(log: &[Rec], root: &Path) -> Vec<String> {
    let r = root.to_string_lossy().into_owned();
    log.iter().map(|x| format!("{} {} {} {} {:?}", x.call, x.p1.replace(&r, "$R"), x.p2.replace(&r, "$R"), x.size, x.copied)).collect()
}

pub struct RunOut {
    pub code: Option<i32>,
    pub signal: Option<i32>,
    pub stdout: String,
    pub stderr: String,
}

/// Run the CLI (optionally under the injector). `root` = VSHIM_ROOT prefix.
pub fn run_cli_inj(args: &[&str], cwd: &Path, envs: &[(&str, String)], root: &Path, log: Option<&Path>, kill_at: Option<u64>) -> RunOut {
    use std::os::unix::process::ExitStatusExt;
    let mut c = std::process::Command::new(cli_bin());
    c.args(args).current_dir(cwd).env("RUST_LOG", "off").env("HOSTNAME", "vhost").stdin(std::process::Stdio::null());
    for (k, v) in envs {
        c.env(k, v);
    }
    if let Some(l) = log {
        let _ = std::fs::remove_file(l);
        c.env("LD_PRELOAD", SHIM).env("VSHIM_ROOT", root).env("VSHIM_LOG", l);
        match kill_at {
            Some(k) => {
                c.env("VSHIM_MODE", "inject").env("VSHIM_KILL_AT", k.to_string());
            }
            None => {
                c.env("VSHIM_MODE", "log");
            }
        }
    }
    let o = c.output().unwrap_or_else(|e| machinery_error(format!("spawn copia: {e}")));
    RunOut { code: o.status.code(), signal: o.status.signal(), stdout: String::from_utf8_lossy(&o.stdout).into_owned(), stderr: String::from_utf8_lossy(&o.stderr).into_owned() }
}


// ═════════════════════════ bisync under I/O errors (used by C02 and C06) ═════════════════════════

/// For every classic scenario and EVERY k: the k-th file-system-mutating libc call of `copia bisync` fails with
/// `errno` instead of running. `mode` selects which property's clauses are reported:
///  C06 — a run that COMPLETES (exit 0, or 1 with conflicts preserved) has both sides equal, the recorded state equal
///        to that tree, and an immediate second run plans nothing;
///  C02 — whatever the exit status, no version present before the run is lost (in the sense of `c02_lost`), also
///        after the run is repeated until it completes.
pub fn bisync_io_faults(mode: &str, seed: u64, thorough: bool) -> (u64, Vec<Violation>) {
    use rayon::prelude::*;
    let scs = scenarios(seed, thorough);
    let errnos: Vec<i32> = if thorough { vec![28, 5, 13, -1] } else { vec![13, -1] };
    let base = Scratch::new("e3iof");
    // (errno, read-side calls counted too)
    let kinds: Vec<(i32, bool)> = errnos.iter().map(|e| (*e, false)).chain([(13, true)]).chain(if thorough { vec![(5, true)] } else { vec![] }).collect();
    let jobs: Vec<(usize, &Scn, i32, bool)> = scs.iter().enumerate().flat_map(|(i, s)| kinds.iter().map(move |k| (i, s, k.0, k.1))).filter(|(_, s, _, _)| s.name != "S10-propagate-300KiB").collect();
    let res: Vec<(u64, Vec<Violation>)> = jobs
        .par_iter()
        .map(|&(i, s, errno, reads)| {
            let slot = Slot::new(base.path(&format!("w{i}-{errno}-{reads}")));
            let _ = std::fs::create_dir_all(&slot.root);
            slot.prepare(s);
            let logp = slot.root.join("log");
            let pre = slot.state();
            slot.restore();
            let cr = if reads { "1" } else { "0" };
            let r0 = run_cli_inj(&["bisync", "A", "B"], &slot.root, &[("HOME", slot.home().to_string_lossy().into_owned()), ("VSHIM_COUNT_READS", cr.to_string())], &slot.root, Some(&logp), None);
            let n = read_log(&logp).len() as u64;
            if !(r0.code == Some(0) || r0.code == Some(1)) || n == 0 {
                // no baseline on this tree: the fault-free behaviour is judged by the main exploration, not here
                return (1, Vec::new());
            }
            let mut runs = 1u64;
            let mut out = Vec::new();
            for k in 1..=n {
                slot.restore();
                let envs = [("HOME", slot.home().to_string_lossy().into_owned()), ("VSHIM_FAIL_AT", k.to_string()), ("VSHIM_FAIL_ERRNO", errno.to_string()), ("VSHIM_COUNT_READS", cr.to_string())];
                let r = run_cli_inj(&["bisync", "A", "B"], &slot.root, &envs, &slot.root, Some(&logp), Some(u64::MAX));
                runs += 1;
                let klog = read_log(&logp);
                let Some(failed) = std::fs::read_to_string(&logp).ok().and_then(|t| t.lines().find(|l| l.ends_with("FAILED")).map(|l| l.split('\t').skip(2).take(2).collect::<Vec<_>>().join(" "))) else { continue };
                let _ = klog;
                let st = slot.state();
                let completed = r.code == Some(0) || (r.code == Some(1) && r.stderr.contains("had conflicts"));
                let det = json!({"io_fault": {"scenario": s.name, "k": k, "errno": errno, "reads": reads}});
                let what = format!("scenario {} with libc call #{k}{} ({}) failing with errno {errno}, exit {:?}", s.name, if reads { " (reads counted)" } else { "" }, failed.rsplit('/').next().unwrap_or(""), r.code);
                if r.signal.is_some() {
                    out.push(Violation::new("crash_on_io_error", format!("{what}: killed by signal {:?}", r.signal), det.clone()).with("cause", json!("io_error")));
                    continue;
                }
                if mode == "C06" && completed {
                    let arch_ok = archive_main(&st.2).and_then(|(_, b)| serde_json::from_slice::<Value>(b).ok()).and_then(|v| v["entries"].as_object().cloned()).is_some_and(|ent| {
                        let tree = non_staging(&st.0);
                        ent.len() == tree.len() && ent.iter().all(|(p, fp)| tree.get(p).is_some_and(|b| fp["blake3"].as_array().is_some_and(|a| a.iter().filter_map(|x| x.as_u64().map(|n| n as u8)).collect::<Vec<u8>>()[..] == blake3::hash(b).as_bytes()[..])))
                    });
                    if non_staging(&st.0) != non_staging(&st.1) {
                        out.push(Violation::new("io_error_swallowed", format!("{what}: the run reports completion but the two sides differ (A {:?} / B {:?})", non_staging(&st.0).keys().collect::<Vec<_>>(), non_staging(&st.1).keys().collect::<Vec<_>>()), det.clone()).with("cause", json!("io_error")));
                    } else if !arch_ok {
                        out.push(Violation::new("io_error_swallowed", format!("{what}: the run reports completion but the recorded common state is not exactly the tree"), det.clone()).with("cause", json!("io_error")));
                    } else {
                        let r2 = slot.bisync(None, None);
                        runs += 1;
                        if r2.code != Some(0) || slot.state().0 != st.0 || slot.state().1 != st.1 {
                            out.push(Violation::new("io_error_swallowed", format!("{what}: a second run right after the completed one exits {:?} or changes a tree", r2.code), det.clone()).with("cause", json!("io_error")));
                        }
                    }
                }
                if mode == "C02" {
                    if let Some(m) = c02_lost(&pre, &st) {
                        // a version may legitimately be only on its own side still when the run FAILED: require it somewhere
                        let anywhere = |bytes: &Vec<u8>| st.0.values().chain(st.1.values()).any(|b| b == bytes);
                        let really_lost = pre.0.iter().chain(pre.1.iter()).filter(|(p, _)| !is_staging(p)).any(|(_, b)| !anywhere(b));
                        if completed || really_lost {
                            // exclude the superseded common base (c02_lost already does for completed runs)
                            if completed {
                                out.push(Violation::new("version_lost", format!("{what}: {m}"), det.clone()).with("cause", json!("io_error")));
                            } else if really_lost {
                                let base_hashes: Vec<Vec<u8>> = archive_main(&pre.2).and_then(|(_, b)| serde_json::from_slice::<Value>(b).ok()).and_then(|v| v["entries"].as_object().cloned()).map(|m| m.values().map(|fp| fp["blake3"].as_array().map(|a| a.iter().filter_map(|x| x.as_u64().map(|n| n as u8)).collect()).unwrap_or_default()).collect()).unwrap_or_default();
                                let lost_nonbase = pre.0.iter().chain(pre.1.iter()).filter(|(p, _)| !is_staging(p)).any(|(_, b)| !anywhere(b) && !base_hashes.iter().any(|h| h[..] == blake3::hash(b).as_bytes()[..]));
                                if lost_nonbase {
                                    out.push(Violation::new("version_lost", format!("{what}: a version that was not the recorded common base exists on neither side after the FAILED run"), det.clone()).with("cause", json!("io_error")));
                                }
                            }
                        }
                    }
                    // repeat until it completes: still nothing lost
                    if !completed {
                        let mut ok = false;
                        for _ in 0..3 {
                            let rr = slot.bisync(None, None);
                            runs += 1;
                            if rr.code == Some(0) || (rr.code == Some(1) && rr.stderr.contains("had conflicts")) {
                                ok = true;
                                break;
                            }
                        }
                        if ok {
                            if let Some(m) = c02_lost(&pre, &slot.state()) {
                                out.push(Violation::new("version_lost", format!("{what}, then repeated until it completed: {m}"), det.clone()).with("cause", json!("io_error")));
                            }
                        }
                    }
                }
                if out.len() >= 3 {
                    break;
                }
            }
            (runs, out)
        })
        .collect();
    let runs = res.iter().map(|r| r.0).sum();
    let mut vs: Vec<Violation> = res.into_iter().flat_map(|r| r.1).collect();
    vs.truncate(6);
    (runs, vs)
}

// ═════════════════════════ C08 ═════════════════════════

struct Scn {
    name: &'static str,
    init_a: Vec<(&'static str, Vec<u8>)>,
    init_b: Vec<(&'static str, Vec<u8>)>,
    prior_sync: bool,
    /// (side, path, Some(bytes) = write / None = delete)
    edits: Vec<(char, &'static str, Option<Vec<u8>>)>,
}

fn big(seed: u64) -> Vec<u8> {
    Rng::new(seed ^ 0xB16).bytes(300 * 1024)
}

fn scenarios(seed: u64, thorough: bool) -> Vec<Scn> {
    let x = || b"XXXX-version\n".to_vec();
    let y = || b"YY-other\n".to_vec();
    let z = || b"Z-base-content\n".to_vec();
    let both = |v: Vec<u8>| vec![("f", v)];
    let mut s = vec![
        Scn { name: "S2-propagate-A-to-B", init_a: both(z()), init_b: both(z()), prior_sync: true, edits: vec![('A', "f", Some(x()))] },
        Scn { name: "S6-both-changed", init_a: both(z()), init_b: both(z()), prior_sync: true, edits: vec![('A', "f", Some(x())), ('B', "f", Some(y()))] },
        Scn {
            name: "S8-first-run-no-archive",
            init_a: vec![("one", b"1".to_vec()), ("same", b"S".to_vec()), ("diff", x())],
            init_b: vec![("two", b"2".to_vec()), ("same", b"S".to_vec()), ("diff", y())],
            prior_sync: false,
            edits: vec![],
        },
    ];
    // a conflict whose natural conflict-copy name is already taken by other content: the numbered fallback is active
    s.push(Scn { name: "S11-numbered-conflict", init_a: both(z()), init_b: both(z()), prior_sync: true, edits: vec![] });
    // a file above 1 MiB (a staging strategy may switch to pre-sizing / chunking there)
    s.push(Scn { name: "S12-propagate-1.5MiB", init_a: both(z()), init_b: both(z()), prior_sync: true, edits: vec![('A', "f", Some(Rng::new(seed ^ 0x15).bytes(1_572_864 + 17)))] });
    s.push(Scn { name: "S4-delete-A", init_a: both(z()), init_b: both(z()), prior_sync: true, edits: vec![('A', "f", None)] });
    s.push(Scn { name: "S7-delete-vs-modify", init_a: both(z()), init_b: both(z()), prior_sync: true, edits: vec![('A', "f", None), ('B', "f", Some(y()))] });
    if thorough {
        s.extend(vec![
            Scn { name: "S1-create", init_a: vec![("k", z())], init_b: vec![("k", z())], prior_sync: true, edits: vec![('A', "new/f", Some(x()))] },
            Scn { name: "S3-propagate-B-to-A", init_a: both(z()), init_b: both(z()), prior_sync: true, edits: vec![('B', "f", Some(y()))] },
            Scn { name: "S5-delete-B", init_a: both(z()), init_b: both(z()), prior_sync: true, edits: vec![('B', "f", None)] },
            Scn {
                name: "S9-several-paths",
                init_a: vec![("d/a", z()), ("d/e/b", z()), ("c", b"cc".to_vec()), ("k", b"kk".to_vec())],
                init_b: vec![("d/a", z()), ("d/e/b", z()), ("c", b"cc".to_vec()), ("k", b"kk".to_vec())],
                prior_sync: true,
                edits: vec![('A', "d/a", Some(x())), ('A', "c", None), ('B', "k", Some(y())), ('A', "d/e/b", Some(x())), ('B', "d/e/b", Some(y())), ('A', "n/x", Some(b"new".to_vec()))],
            },
            Scn { name: "S10-propagate-300KiB", init_a: both(z()), init_b: both(z()), prior_sync: true, edits: vec![('A', "f", Some(big(seed)))] },
        ]);
    }
    s
}

struct Slot {
    root: PathBuf,
    /// name of the template directory `restore` copies from ("tpl"; "tpl2" while a crash state is the pre-state)
    tplname: std::cell::Cell<&'static str>,
}
impl Slot {
    fn a(&self) -> PathBuf {
        self.root.join("A")
    }
    fn b(&self) -> PathBuf {
        self.root.join("B")
    }
    fn home(&self) -> PathBuf {
        self.root.join("home")
    }
    fn new(root: PathBuf) -> Slot {
        Slot { root, tplname: std::cell::Cell::new("tpl") }
    }
    fn tpl(&self) -> PathBuf {
        self.root.join(self.tplname.get())
    }
    fn restore(&self) {
        for n in ["A", "B", "home"] {
            wipe(&self.root.join(n));
            copy_dir(&self.tpl().join(n), &self.root.join(n));
        }
    }
    fn bisync(&self, log: Option<&Path>, kill_at: Option<u64>) -> RunOut {
        run_cli_inj(&["bisync", "A", "B"], &self.root, &[("HOME", self.home().to_string_lossy().into_owned())], &self.root, log, kill_at)
    }
    fn prepare(&self, s: &Scn) {
        for n in ["A", "B", "home", "tpl"] {
            wipe(&self.root.join(n));
        }
        write_files(&self.a(), &s.init_a);
        write_files(&self.b(), &s.init_b);
        if s.prior_sync {
            let r = self.bisync(None, None);
            if r.code != Some(0) {
                machinery_error(format!("scenario {} prior sync failed: {:?} {}", s.name, r.code, r.stderr));
            }
        }
        if s.name == "S11-numbered-conflict" {
            // round 1: divergent edit -> winner at f, loser L at f.conflict-<host>-<hash(L)>
            let (x, y) = (b"XXXX-version\n".to_vec(), b"YY-other\n".to_vec());
            write_files(&self.a(), &[("f", x.clone())]);
            write_files(&self.b(), &[("f", y.clone())]);
            let r = self.bisync(None, None);
            if r.code != Some(1) {
                machinery_error(format!("S11 preparation: the first conflict run exited {:?}", r.code));
            }
            let snap = snapshot_dir(&self.a());
            let Some((cname, loser)) = snap.iter().find(|(k, _)| k.contains(".conflict-")).map(|(k, v)| (k.clone(), v.clone())) else { machinery_error("S11 preparation: no conflict-copy after a divergent edit") };
            // both sides edit the conflict-copy to the same other content; then the conflict recurs with the SAME loser
            for root in [self.a(), self.b()] {
                write_files(&root, &[(cname.as_str(), b"edited conflict-copy".to_vec())]);
            }
            let lh = blake3::hash(&loser);
            let winner2 = (0..200u32).map(|i| format!("V-new-content-{i}\n").into_bytes()).find(|v| blake3::hash(v).as_bytes() > lh.as_bytes()).unwrap_or_else(|| machinery_error("S11: no winning content found"));
            write_files(&self.a(), &[("f", loser)]);
            write_files(&self.b(), &[("f", winner2)]);
        }
        for (side, p, v) in &s.edits {
            let root = if *side == 'A' { self.a() } else { self.b() };
            match v {
                Some(b) => write_files(&root, &[(p, b.clone())]),
                None => {
                    let _ = std::fs::remove_file(root.join(p));
                }
            }
        }
        for n in ["A", "B", "home"] {
            copy_dir(&self.root.join(n), &self.tpl().join(n));
        }
    }
    fn state(&self) -> (Files, Files, Files) {
        (snapshot_dir(&self.a()), snapshot_dir(&self.b()), snapshot_dir(&self.home()))
    }
}

fn is_staging(p: &str) -> bool {
    p.ends_with(".copia-tmp") || p.contains(".copia-tmp.")
}
fn non_staging(f: &Files) -> Files {
    f.iter().filter(|(k, _)| !is_staging(k)).map(|(k, v)| (k.clone(), v.clone())).collect()
}
fn archive_main(home: &Files) -> Option<(&String, &Vec<u8>)> {
    home.iter().find(|(k, _)| k.ends_with(".json"))
}

/// path of which `p` is (possibly) a conflict-copy
fn conflict_base(p: &str) -> Option<&str> {
    // a conflict-copy of a conflict-copy: the LAST `.conflict-` separates the copied path from the suffix
    p.rfind(".conflict-").map(|i| &p[..i])
}

/// State invariant of C08 on one crash state.
fn c08_invariant(pre: &(Files, Files, Files), fin: &(Files, Files, Files), st: &(Files, Files, Files)) -> Option<(String, String)> {
    let (pa, pb, ph) = pre;
    let allowed = |p: &str| -> Vec<&Vec<u8>> {
        let mut v = Vec::new();
        for t in [pa, pb] {
            if let Some(x) = t.get(p) {
                v.push(x);
            }
            if let Some(q) = conflict_base(p) {
                if let Some(x) = t.get(q) {
                    v.push(x);
                }
            }
        }
        v
    };
    for (side, t) in [("A", &st.0), ("B", &st.1)] {
        for (p, bytes) in t.iter().filter(|(p, _)| !is_staging(p)) {
            if !allowed(p).iter().any(|x| *x == bytes) {
                let kind = if allowed(p).iter().any(|x| x.starts_with(bytes)) || bytes.is_empty() { "partial_file" } else { "foreign_bytes" };
                return Some((kind.into(), format!("side {side} path {p} holds {} bytes that are not a complete pre-run / delivered version", bytes.len())));
            }
        }
    }
    // a path that exists before the run and after an uninterrupted run must exist at every instant in between
    for (side, pre_t, fin_t, cur) in [("A", pa, &fin.0, &st.0), ("B", pb, &fin.1, &st.1)] {
        for p in pre_t.keys().filter(|p| !is_staging(p)) {
            if fin_t.contains_key(p) && !cur.contains_key(p) {
                return Some(("path_missing".into(), format!("side {side} path {p} existed before the run, exists after an uninterrupted run, and is ABSENT in this crash state")));
            }
        }
    }
    // archive: old, absent or new
    let old = archive_main(ph).map(|x| x.1.clone());
    let new = archive_main(&fin.2).map(|x| x.1.clone());
    match archive_main(&st.2).map(|x| x.1.clone()) {
        None => {}
        Some(cur) => {
            if Some(&cur) == old.as_ref() && old != new {
                // still the old record: fine
            } else if Some(&cur) == new.as_ref() {
                // the new record: everything it describes must be on both sides with that hash
                let v: Value = serde_json::from_slice(&cur).unwrap_or(Value::Null);
                if let Some(ent) = v["entries"].as_object() {
                    for (p, fp) in ent {
                        let h: Vec<u8> = fp["blake3"].as_array().map(|a| a.iter().filter_map(|x| x.as_u64().map(|n| n as u8)).collect()).unwrap_or_default();
                        for (side, t) in [("A", &st.0), ("B", &st.1)] {
                            match t.get(p) {
                                Some(b) if blake3::hash(b).as_bytes()[..] == h[..] => {}
                                other => {
                                    return Some(("record_ahead_of_data".into(), format!("the NEW recorded state is on disk but side {side} path {p} {} the recorded hash", if other.is_some() { "does not have" } else { "is missing, so it cannot have" })));
                                }
                            }
                        }
                    }
                }
            } else if cur.is_empty() || old.as_ref().is_some_and(|o| o.starts_with(&cur)) || new.as_ref().is_some_and(|n| n.starts_with(&cur)) {
                return Some(("archive_torn".into(), format!("recorded state file is a partial write ({} bytes)", cur.len())));
            } else {
                return Some(("archive_other".into(), "recorded state is neither the old nor the new one".into()));
            }
        }
    }
    None
}

/// Trace-order invariant on the uninterrupted log.
fn c08_trace_order(log: &[Rec]) -> Option<(String, String)> {
    let mut last_data: BTreeMap<String, u64> = BTreeMap::new();
    let mut last_sync: BTreeMap<String, u64> = BTreeMap::new();
    let mut data_renames_pending: BTreeSet<String> = BTreeSet::new();
    for r in log {
        match r.call.as_str() {
            "open" if r.flags & (libc::O_WRONLY | libc::O_RDWR | libc::O_TRUNC | libc::O_CREAT) as i64 != 0 => {
                if r.p1.ends_with(".copia-tmp") {
                    data_renames_pending.insert(r.p1.clone());
                }
                last_data.insert(r.p1.clone(), r.n);
            }
            "write" | "copy_file_range" | "sendfile" | "splice" | "ftruncate" => {
                last_data.insert(r.p1.clone(), r.n);
            }
            "fsync" => {
                last_sync.insert(r.p1.clone(), r.n);
            }
            "rename" => {
                let staged = r.p1.ends_with(".copia-tmp") || r.p1.ends_with(".json.tmp");
                if staged {
                    let d = last_data.get(&r.p1).copied().unwrap_or(0);
                    let s = last_sync.get(&r.p1).copied().unwrap_or(0);
                    if s < d {
                        return Some(("rename_before_fsync".into(), format!("call {}: rename of {} into place without an fsync after its last data write (call {d})", r.n, r.p1.rsplit('/').next().unwrap_or(""))));
                    }
                }
                data_renames_pending.remove(&r.p1);
                if r.p2.ends_with(".json") && r.p1.ends_with(".json.tmp") && !data_renames_pending.is_empty() {
                    return Some(("record_before_data".into(), format!("call {}: the recorded state is renamed into place while staged data files are still pending: {data_renames_pending:?}", r.n)));
                }
            }
            _ => {}
        }
    }
    None
}

/// Dirty (written since last fsync) files at the point where the first `upto` records have executed.
/// Returns current path -> (synced_len, written_len).
fn dirty_files(log: &[Rec], upto: u64) -> BTreeMap<String, (u64, u64)> {
    let mut f: BTreeMap<String, (u64, u64)> = BTreeMap::new();
    for r in log.iter().filter(|r| r.n <= upto && !r.killed_before) {
        match r.call.as_str() {
            "open" => {
                if r.flags & (libc::O_TRUNC | libc::O_CREAT) as i64 != 0 && r.flags & (libc::O_WRONLY | libc::O_RDWR) as i64 != 0 {
                    f.insert(r.p1.clone(), (0, 0));
                }
            }
            "write" => {
                if let Some(e) = f.get_mut(&r.p1) {
                    e.1 += r.size.max(0) as u64;
                }
            }
            "copy_file_range" | "sendfile" | "splice" => {
                if let Some(e) = f.get_mut(&r.p1) {
                    e.1 += r.copied.unwrap_or(0).max(0) as u64;
                }
            }
            "fsync" => {
                if let Some(e) = f.get_mut(&r.p1) {
                    e.0 = e.1;
                }
            }
            "rename" => {
                if let Some(e) = f.remove(&r.p1) {
                    f.insert(r.p2.clone(), e);
                }
            }
            "unlink" => {
                f.remove(&r.p1);
            }
            _ => {}
        }
    }
    f.retain(|_, (s, w)| w > s);
    f
}

fn c02_lost(pre: &(Files, Files, Files), post: &(Files, Files, Files)) -> Option<String> {
    // every pre-crash version (incl. what the run already delivered) must still exist on both sides afterwards
    // unless it is the recorded base and the other side changed it — approximated conservatively:
    // only versions that differ from the archive-recorded hash for that path are required to survive.
    let base: BTreeMap<String, Vec<u8>> = archive_main(&pre.2)
        .and_then(|(_, b)| serde_json::from_slice::<Value>(b).ok())
        .and_then(|v| v["entries"].as_object().cloned())
        .map(|m| m.into_iter().map(|(p, fp)| (p, fp["blake3"].as_array().map(|a| a.iter().filter_map(|x| x.as_u64().map(|n| n as u8)).collect::<Vec<u8>>()).unwrap_or_default())).collect())
        .unwrap_or_default();
    for (side, t) in [("A", &pre.0), ("B", &pre.1)] {
        for (p, bytes) in t.iter().filter(|(p, _)| !is_staging(p)) {
            let h = blake3::hash(bytes);
            if base.get(p).is_some_and(|b| b[..] == h.as_bytes()[..]) {
                continue; // the last common version may legitimately be superseded
            }
            for (s2, post_t) in [("A", &post.0), ("B", &post.1)] {
                let ok = post_t.get(p) == Some(bytes) || post_t.iter().any(|(q, b)| b == bytes && q.starts_with(&format!("{p}.conflict-")));
                if !ok {
                    return Some(format!("version of {p} ({} bytes) present on side {side} at the crash is gone from side {s2} after recovery", bytes.len()));
                }
            }
        }
    }
    None
}

/// Scenario given as a state of the bisync history graph (E2): trees + recorded state, materialised directly.
pub struct StateScn {
    pub name: String,
    pub a: crate::e2::Tree,
    pub b: crate::e2::Tree,
    pub r: Option<crate::e2::Tree>,
}

struct NameOnly {
    name: String,
}

fn prepare_state(slot: &Slot, s: &StateScn) {
    for n in ["A", "B", "home", "tpl"] {
        wipe(&slot.root.join(n));
    }
    let cs = crate::e2::contents();
    for (root, t) in [(slot.a(), &s.a), (slot.b(), &s.b)] {
        for (p, id) in t {
            write_files(&root, &[(p.as_str(), cs[(*id - 1) as usize].clone())]);
        }
    }
    if let Some(r) = &s.r {
        let (rel, bytes) = crate::e2::archive_bytes(&slot.a(), &slot.b(), r);
        let full = slot.home().join(rel);
        if let Some(d) = full.parent() {
            let _ = std::fs::create_dir_all(d);
        }
        let _ = std::fs::write(full, bytes);
    }
    for n in ["A", "B", "home"] {
        copy_dir(&slot.root.join(n), &slot.tpl().join(n));
    }
}

fn c08_scenario(slot: &Slot, s: &Scn, max_subsets: usize, evals: &AtomicU64, nontrivial: &AtomicU64, positions: &AtomicU64) -> Vec<Violation> {
    slot.prepare(s);
    c08_prepared(slot, &NameOnly { name: s.name.to_string() }, max_subsets, true, None, DOUBLE_CRASH.load(Ordering::Relaxed) || matches!(s.name, "S2-propagate-A-to-B" | "S4-delete-A" | "S6-both-changed" | "S7-delete-vs-modify" | "S8-first-run-no-archive"), evals, nontrivial, positions)
}

fn c08_state_scenario(slot: &Slot, s: &StateScn, max_subsets: usize, evals: &AtomicU64, nontrivial: &AtomicU64, positions: &AtomicU64) -> Vec<Violation> {
    prepare_state(slot, s);
    c08_prepared(slot, &NameOnly { name: s.name.clone() }, max_subsets, POST_EDIT_ON_GRAPH.load(Ordering::Relaxed), None, DOUBLE_CRASH.load(Ordering::Relaxed), evals, nontrivial, positions)
}

/// `outer` = Some(k1) when the pre-state of this call is itself the crash state "killed before call k1" of the
/// scenario (a SECOND crash, during the recovery run); `double` = enumerate such second crashes from every
/// untorn first-level crash state.
#[allow(clippy::too_many_arguments)]
fn c08_prepared(slot: &Slot, s: &NameOnly, max_subsets: usize, post_edit: bool, outer: Option<u64>, double: bool, evals: &AtomicU64, nontrivial: &AtomicU64, positions: &AtomicU64) -> Vec<Violation> {
    let mut out: Vec<Violation> = Vec::new();
    let logp = slot.root.join("log");
    slot.restore();
    let pre = slot.state();
    // (1) uninterrupted, twice: determinism + N
    let r1 = slot.bisync(Some(&logp), None);
    let log1 = read_log(&logp);
    let fin = slot.state();
    slot.restore();
    let r2 = slot.bisync(Some(&logp), None);
    let log2 = read_log(&logp);
    if normalise(&log1, &slot.root) != normalise(&log2, &slot.root) || r1.code != r2.code || slot.state() != fin {
        machinery_error(format!("scenario {}: two uninterrupted runs differ (log or final state) — nondeterminism not owned", s.name));
    }
    if !(r1.code == Some(0) || (r1.code == Some(1) && r1.stderr.contains("had conflicts"))) {
        if outer.is_some() {
            return out; // a recovery run that fails is reported by the first level (recovery_fails)
        }
        machinery_error(format!("scenario {}: uninterrupted run failed: {:?} {}", s.name, r1.code, r1.stderr));
    }
    let n = log1.len() as u64;
    let det = |k: u64, torn: &Value| match outer {
        None => json!({"scenario": s.name, "kill_at": k, "torn": torn}),
        Some(k1) => json!({"scenario": s.name, "kill_at": k1, "second_kill_at": k, "torn": torn}),
    };
    let sname = match outer {
        None => s.name.clone(),
        Some(k1) => format!("{} [first crash: killed before call {k1}; this is the recovery run]", s.name),
    };
    // trace-order invariant
    evals.fetch_add(1, Ordering::Relaxed);
    if let Some((k, m)) = c08_trace_order(&log1) {
        out.push(Violation::new(&k, format!("scenario {}: {m}", s.name), det(0, &Value::Null)).with("scenario", json!(s.name)));
    }
    // (3) every kill point
    for k in 1..=n + 1 {
        slot.restore();
        let rk = slot.bisync(Some(&logp), Some(k));
        let klog = read_log(&logp);
        if k <= n {
            if rk.signal != Some(libc::SIGKILL) {
                machinery_error(format!("scenario {} kill_at {k}: process was not killed (code {:?}, signal {:?})", s.name, rk.code, rk.signal));
            }
            // the prefix of the killed run must be the prefix of the reference log
            let a = normalise(&klog[..klog.len().saturating_sub(1)], &slot.root);
            let b = normalise(&log1[..(k as usize - 1).min(log1.len())], &slot.root);
            if a != b {
                machinery_error(format!("scenario {} kill_at {k}: log prefix diverges from the uninterrupted run", s.name));
            }
        }
        let kill_state = slot.state();
        positions.fetch_add(1, Ordering::Relaxed);
        if outer.is_some() {
            SECOND_POINTS.fetch_add(1, Ordering::Relaxed);
        }
        if double && outer.is_none() && k <= n {
            // the real on-disk crash state (mtimes included) becomes the template of a nested enumeration
            wipe(&slot.root.join("tpl2"));
            for nm in ["A", "B", "home"] {
                copy_dir(&slot.root.join(nm), &slot.root.join("tpl2").join(nm));
            }
        }
        // torn variants: subsets of dirty files
        let dirty = dirty_files(&klog, k.saturating_sub(1));
        let dnames: Vec<&String> = dirty.keys().collect();
        let nsub = (1usize << dnames.len().min(6)).min(max_subsets.max(1));
        let mut variants: Vec<Value> = vec![Value::Null];
        for mask in 1..nsub {
            for mode in ["empty", "half"] {
                variants.push(json!({"mask": mask, "mode": mode}));
            }
        }
        if outer.is_none() && !dnames.is_empty() && (nsub < (1usize << dnames.len().min(6)) || dnames.len() > 6) {
            TORN_CAPPED.fetch_add(1, Ordering::Relaxed);
        }
        if !dnames.is_empty() && nsub < (1usize << dnames.len().min(6)) {
            // always include "all dirty files torn"
            variants.push(json!({"mask": (1usize << dnames.len().min(6)) - 1, "mode": "empty"}));
        }
        for torn in variants {
            evals.fetch_add(1, Ordering::Relaxed);
            // materialise this crash state
            if !torn.is_null() {
                for n in ["A", "B", "home"] {
                    wipe(&slot.root.join(n));
                }
                for (n, t) in [("A", &kill_state.0), ("B", &kill_state.1), ("home", &kill_state.2)] {
                    for (p, b) in t {
                        write_files(&slot.root.join(n), &[(p.as_str(), b.clone())]);
                    }
                }
                let mask = torn["mask"].as_u64().unwrap_or(0);
                for (i, name) in dnames.iter().enumerate().take(6) {
                    if mask & (1 << i) != 0 {
                        let (synced, written) = dirty[*name];
                        let keep = if torn["mode"] == "empty" { synced } else { synced + (written - synced) / 2 };
                        if let Ok(f) = std::fs::OpenOptions::new().write(true).open(name.as_str()) {
                            let _ = f.set_len(keep);
                        }
                    }
                }
            }
            let st = slot.state();
            if st != pre && st != fin {
                nontrivial.fetch_add(1, Ordering::Relaxed);
            }
            if let Some((kind, m)) = c08_invariant(&pre, &fin, &st) {
                out.push(Violation::new(&kind, format!("scenario {} killed before call {k}{}: {m}", sname, if torn.is_null() { String::new() } else { format!(" + power loss {torn}") }), det(k, &torn)).with("scenario", json!(s.name)).with("second_crash", json!(outer.is_some())).with("torn", json!(!torn.is_null())));
                if out.len() >= 4 {
                    return out;
                }
                continue;
            }
            // (5) recovery
            let mut ok = false;
            let mut last_err = String::new();
            for _ in 0..3 {
                let r = slot.bisync(None, None);
                if r.code == Some(0) || (r.code == Some(1) && r.stderr.contains("had conflicts")) {
                    ok = true;
                    break;
                }
                last_err = r.stderr;
            }
            let after = slot.state();
            if !ok {
                out.push(Violation::new("recovery_fails", format!("scenario {} killed before call {k}: three recovery runs all failed: {}", sname, last_err.lines().last().unwrap_or("")), det(k, &torn)).with("scenario", json!(s.name)).with("second_crash", json!(outer.is_some())));
            } else if non_staging(&after.0) != non_staging(&fin.0) || non_staging(&after.1) != non_staging(&fin.1) {
                out.push(Violation::new("recovery_differs", format!("scenario {} killed before call {k}{}: after recovery the trees differ from the uninterrupted run's (A: {:?} vs {:?})", sname, if torn.is_null() { String::new() } else { format!(" + power loss {torn}") }, non_staging(&after.0).keys().collect::<Vec<_>>(), non_staging(&fin.0).keys().collect::<Vec<_>>()), det(k, &torn)).with("scenario", json!(s.name)).with("second_crash", json!(outer.is_some())).with("torn", json!(!torn.is_null())));
            } else if let Some(m) = c02_lost(&st, &after) {
                out.push(Violation::new("recovery_loses_version", format!("scenario {} killed before call {k}: {m}", sname), det(k, &torn)).with("scenario", json!(s.name)).with("second_crash", json!(outer.is_some())));
            }
            if out.len() >= 4 {
                return out;
            }
            // (5b) a SECOND crash: the recovery run from this (untorn) crash state is itself killed before every one
            // of its calls; the crash state is the pre-state of the nested enumeration, so the same invariant applies
            // (every file a complete version that existed, paths never vanish, the record old or new and never ahead).
            if torn.is_null() && double && outer.is_none() && k <= n && ok {
                slot.tplname.set("tpl2");
                let vs = c08_prepared(slot, s, 1, false, Some(k), false, evals, nontrivial, positions);
                slot.tplname.set("tpl");
                out.extend(vs);
                if out.len() >= 4 {
                    return out;
                }
            }
            // (6) the user edits a file AFTER the crash and before running bisync again (a history continues from
            // every crash state): the recovery run(s) must complete, lose nothing (C02), leave both sides equal with
            // an idempotent second run (C06), and no file may hold bytes that nobody ever wrote.
            if torn.is_null() && post_edit && k <= n {
                for (side, variant) in [("A", "short"), ("B", "short"), ("A", "same-length, old mtime"), ("B", "same-length, old mtime")] {
                    for n in ["A", "B", "home"] {
                        wipe(&slot.root.join(n));
                    }
                    for (n, t) in [("A", &kill_state.0), ("B", &kill_state.1), ("home", &kill_state.2)] {
                        for (p, b) in t {
                            write_files(&slot.root.join(n), &[(p.as_str(), b.clone())]);
                        }
                    }
                    let target: Option<String> = pre.0.keys().chain(pre.1.keys()).find(|p| !is_staging(p) && !p.contains(".conflict-")).cloned();
                    let Some(target) = target else { continue };
                    let cur = if side == "A" { kill_state.0.get(&target) } else { kill_state.1.get(&target) };
                    let edit: Vec<u8> = if variant == "short" {
                        b"s!".to_vec()
                    } else {
                        // what `cp -p` of an older same-size version would leave: other bytes, same length, an OLD mtime
                        match cur {
                            Some(c) if !c.is_empty() => c.iter().map(|x| x ^ 0x5A).collect(),
                            _ => continue,
                        }
                    };
                    write_files(&slot.root.join(side), &[(target.as_str(), edit.clone())]);
                    if variant != "short" {
                        crate::c19::set_mtime(&slot.root.join(side).join(&target), 1_400_000_000, 0);
                    }
                    let edited = slot.state();
                    evals.fetch_add(1, Ordering::Relaxed);
                    let mut ok = false;
                    let mut last_err = String::new();
                    for _ in 0..3 {
                        let r = slot.bisync(None, None);
                        if r.code == Some(0) || (r.code == Some(1) && r.stderr.contains("had conflicts")) {
                            ok = true;
                            break;
                        }
                        last_err = r.stderr;
                    }
                    let after = slot.state();
                    let mut known: Vec<&Vec<u8>> = Vec::new();
                    for t in [&pre.0, &pre.1, &fin.0, &fin.1, &kill_state.0, &kill_state.1] {
                        known.extend(t.iter().filter(|(p, _)| !is_staging(p)).map(|(_, b)| b));
                    }
                    known.push(&edit);
                    let d2 = json!({"scenario": s.name, "kill_at": k, "torn": Value::Null, "post_crash_edit": {"side": side, "path": target, "variant": variant}});
                    let what = format!("scenario {} killed before call {k}, then {target} rewritten ({variant}) on side {side}", s.name);
                    if !ok {
                        out.push(Violation::new("recovery_fails", format!("{what}: three recovery runs all failed: {}", last_err.lines().last().unwrap_or("")), d2).with("scenario", json!(s.name)).with("second_crash", json!(outer.is_some())).with("post_crash_edit", json!(true)));
                    } else if let Some((p, b)) = after.0.iter().chain(after.1.iter()).filter(|(p, _)| !is_staging(p)).find(|(_, b)| !known.contains(b)) {
                        out.push(Violation::new("alien_bytes", format!("{what}: after recovery {p} holds {} bytes that were never written by anyone", b.len()), d2).with("scenario", json!(s.name)).with("second_crash", json!(outer.is_some())).with("post_crash_edit", json!(true)));
                    } else if non_staging(&after.0) != non_staging(&after.1) {
                        out.push(Violation::new("recovery_not_converged", format!("{what}: after a completed recovery run the two sides differ"), d2).with("scenario", json!(s.name)).with("second_crash", json!(outer.is_some())).with("post_crash_edit", json!(true)));
                    } else if let Some(m) = c02_lost(&edited, &after) {
                        out.push(Violation::new("recovery_loses_version", format!("{what}: {m}"), d2).with("scenario", json!(s.name)).with("second_crash", json!(outer.is_some())).with("post_crash_edit", json!(true)));
                    } else {
                        let r = slot.bisync(None, None);
                        if r.code != Some(0) || slot.state().0 != after.0 || slot.state().1 != after.1 {
                            out.push(Violation::new("recovery_not_idempotent", format!("{what}: a further run after the completed recovery exits {:?} or changes a tree", r.code), d2).with("scenario", json!(s.name)).with("second_crash", json!(outer.is_some())).with("post_crash_edit", json!(true)));
                        }
                    }
                    if out.len() >= 4 {
                        return out;
                    }
                }
            }
        }
    }
    out
}

static POST_EDIT_ON_GRAPH: std::sync::atomic::AtomicBool = std::sync::atomic::AtomicBool::new(false);
static SECOND_POINTS: AtomicU64 = AtomicU64::new(0);
static TORN_CAPPED: AtomicU64 = AtomicU64::new(0);
static DOUBLE_CRASH: std::sync::atomic::AtomicBool = std::sync::atomic::AtomicBool::new(false);

pub fn run_c08(ctx: &Ctx) -> ! {
    let thorough = ctx.tier.is_thorough();
    POST_EDIT_ON_GRAPH.store(thorough, Ordering::Relaxed);
    let replay_double = ctx.replay.as_ref().and_then(|rp| serde_json::from_slice::<Value>(&std::fs::read(rp).unwrap_or_default()).ok()).is_some_and(|v| v["detail"]["second_kill_at"].is_u64());
    DOUBLE_CRASH.store(thorough || replay_double, Ordering::Relaxed);
    let scs = scenarios(ctx.seed, thorough);
    let evals = AtomicU64::new(0);
    let nontrivial = AtomicU64::new(0);
    let positions = AtomicU64::new(0);
    let base = Scratch::new("e3c08");
    let only: Option<String> = ctx.replay.as_ref().and_then(|rp| serde_json::from_slice::<Value>(&std::fs::read(rp).unwrap_or_default()).ok()).and_then(|v| v["detail"]["scenario"].as_str().map(str::to_string));
    let all = scenarios(ctx.seed, true);
    let chosen: Vec<&Scn> = match &only {
        Some(n) => all.iter().filter(|s| s.name == n).collect(),
        None => scs.iter().collect(),
    };
    let max_subsets = if thorough { 64 } else { 8 };
    let mut violations: Vec<Violation> = chosen
        .par_iter()
        .enumerate()
        .flat_map_iter(|(i, s)| {
            let slot = Slot::new(base.path(&format!("w{i}")));
            let _ = std::fs::create_dir_all(&slot.root);
            c08_scenario(&slot, s, max_subsets, &evals, &nontrivial, &positions)
        })
        .collect();
    // "forall scenarios": every distinct bisync transition of the E2 history graph is a scenario
    let bounds = if thorough {
        vec![crate::e2::Bound { u0: vec!["f"], e: 3, m: 2, state_cap: 400_000, decor: vec![] }, crate::e2::Bound { u0: vec!["f", "d/g"], e: 2, m: 1, state_cap: 400_000, decor: vec![] }]
    } else {
        vec![crate::e2::Bound { u0: vec!["f"], e: 2, m: 2, state_cap: 400_000, decor: vec![] }]
    };
    let mut pre: Vec<(crate::e2::State, Vec<String>)> = Vec::new();
    let _ = crate::e2::explore_collect(ctx, "none", &bounds, 0, Some(&mut pre));
    let graph: Vec<StateScn> = pre.into_iter().map(|(st, h)| StateScn { name: format!("G: {}", h.join(" ; ")), a: st.a, b: st.b, r: st.r }).collect();
    let graph_scenarios = if only.is_some() { 0 } else { graph.len() };
    let chosen_graph: Vec<&StateScn> = match &only {
        Some(n) => graph.iter().filter(|g| g.name == *n).collect(),
        None => graph.iter().collect(),
    };
    let next = AtomicU64::new(0);
    let gv: Mutex<Vec<Violation>> = Mutex::new(Vec::new());
    std::thread::scope(|sc| {
        for w in 0..16 {
            let (next, gv, chosen_graph, base, evals, nontrivial, positions) = (&next, &gv, &chosen_graph, &base, &evals, &nontrivial, &positions);
            sc.spawn(move || {
                let slot = Slot::new(base.path(&format!("g{w}")));
                let _ = std::fs::create_dir_all(&slot.root);
                loop {
                    let i = next.fetch_add(1, Ordering::Relaxed) as usize;
                    if i >= chosen_graph.len() {
                        break;
                    }
                    let vs = c08_state_scenario(&slot, chosen_graph[i], max_subsets, evals, nontrivial, positions);
                    if !vs.is_empty() {
                        if let Ok(mut g) = gv.lock() {
                            g.extend(vs);
                        }
                    }
                }
            });
        }
    });
    let mut gvs = gv.into_inner().unwrap_or_default();
    gvs.sort_by_key(|v| v.detail["scenario"].as_str().map_or(0, str::len));
    let mut per: std::collections::HashMap<String, usize> = Default::default();
    for v in gvs {
        let c = per.entry(v.kind().to_string()).or_insert(0);
        *c += 1;
        if *c <= 3 {
            violations.push(v);
        }
    }
    let mut rep = Report::new("fault_enumeration");
    rep.set("evaluations", evals.load(Ordering::Relaxed))
        .set("distinct_nontrivial", nontrivial.load(Ordering::Relaxed))
        .set("kill_points", positions.load(Ordering::Relaxed))
        .set("scenarios", chosen.iter().map(|s| s.name).collect::<Vec<_>>())
        .set("graph_scenarios", graph_scenarios as u64)
        .set("second_crash_kill_points", SECOND_POINTS.load(Ordering::Relaxed))
        .set("kill_points_where_torn_subsets_were_capped", TORN_CAPPED.load(Ordering::Relaxed))
        .set("rule", "scenarios = the named ones (prepared by a real prior sync) PLUS every distinct bisync transition of the bisync history graph (E2 bound; pre-state materialised with its recorded state); per scenario (prepared by a real prior sync so a trusted archive exists): the process is SIGKILLed immediately before its k-th file-system-mutating libc call for EVERY k = 1..N+1 (N from the interposer log of the uninterrupted run, which is replayed twice for determinism); at each k additionally every subset (capped) of files written since their last fsync is torn (empty / half) — crash model: metadata operations persist in issue order, file data only up to the last fsync; each crash state is checked against the state invariant, then recovered with up to 3 more runs; SECOND CRASH (quick: S2/S4/S6/S7/S8; thorough: every scenario incl. the graph ones): from every untorn first crash state the recovery run is itself killed before every one of its calls, with the first crash state as pre-state of the same invariant and recovery checks; non-trivial = crash state differs from both the initial and the final state")
        .set("samples", json!([{"scenario":"S6-both-changed","kill_at":9,"torn":null},{"scenario":"S2-propagate-A-to-B","kill_at":7,"torn":{"mask":1,"mode":"empty"}}]))
        .set("exhaustive_kill_points", true)
        .set("exhaustive", TORN_CAPPED.load(Ordering::Relaxed) == 0);
    rep.assume("crash model: rename/unlink/mkdir persist in issue order; data persists only up to the last fsync of that file unless chosen otherwise; at most two crashes in a row (the second one untorn); tmpfs stands in for the disk");
    rep.assume("trace-order invariant evaluated on the interposer log of the uninterrupted run: every staged file is fsynced after its last data write and before its rename; the record's rename comes after all data renames");
    finish(ctx, rep, violations);
}

// ═════════════════════════ C09 ═════════════════════════

/// Child mode: become a subreaper, run the command, wait for it AND for every orphaned
/// descendant (the remote shell of a push keeps running after its sender died), report the status.
pub fn child_runwait(arg: &str) -> ! {
    use std::os::unix::process::ExitStatusExt;
    let v: Value = serde_json::from_str(arg).unwrap_or(Value::Null);
    unsafe {
        libc::prctl(libc::PR_SET_CHILD_SUBREAPER, 1, 0, 0, 0);
    }
    let argv: Vec<String> = v["argv"].as_array().map(|a| a.iter().filter_map(|x| x.as_str().map(str::to_string)).collect()).unwrap_or_default();
    let mut c = std::process::Command::new(&argv[0]);
    c.args(&argv[1..]).current_dir(v["cwd"].as_str().unwrap_or("/")).stdin(std::process::Stdio::null());
    if let Some(o) = v["stdout"].as_str() {
        if let Ok(f) = std::fs::File::create(o) {
            c.stdout(f);
        }
    }
    if let Some(o) = v["stderr"].as_str() {
        if let Ok(f) = std::fs::File::create(o) {
            c.stderr(f);
        }
    }
    if let Some(env) = v["env"].as_object() {
        for (k, val) in env {
            c.env(k, val.as_str().unwrap_or(""));
        }
    }
    let st = c.status().unwrap_or_else(|e| machinery_error(format!("runwait spawn: {e}")));
    loop {
        let mut s = 0;
        let r = unsafe { libc::waitpid(-1, &mut s, 0) };
        if r < 0 {
            break;
        }
    }
    println!("{}", json!({"code": st.code(), "signal": st.signal()}));
    std::process::exit(0);
}

fn run_wait(argv: &[String], cwd: &Path, env: &BTreeMap<String, String>, outp: &Path, errp: &Path) -> (Option<i32>, Option<i32>) {
    let exe = std::env::current_exe().unwrap_or_else(|e| machinery_error(format!("current_exe: {e}")));
    let arg = json!({"argv": argv, "cwd": cwd, "env": env, "stdout": outp, "stderr": errp}).to_string();
    let o = std::process::Command::new(exe).args(["E3", "--child", "runwait", &arg]).output().unwrap_or_else(|e| machinery_error(format!("spawn runwait: {e}")));
    let v: Value = serde_json::from_slice(&o.stdout).unwrap_or_else(|_| machinery_error(format!("runwait produced no status: {}", String::from_utf8_lossy(&o.stderr))));
    (v["code"].as_i64().map(|x| x as i32), v["signal"].as_i64().map(|x| x as i32))
}

#[derive(Clone, Debug)]
struct S9 {
    dir: &'static str,   // local | push | pull
    dst: &'static str,   // absent | diffsize | samesize | mixed
    flag: &'static str,  // none | delete | exclude
}

fn s9_name(s: &S9) -> String {
    format!("{}-{}-{}", s.dir, s.dst, s.flag)
}

struct Slot9 {
    root: PathBuf,
}
impl Slot9 {
    fn src(&self) -> PathBuf {
        self.root.join("src")
    }
    fn dst(&self) -> PathBuf {
        self.root.join("dst")
    }
    fn rhome(&self) -> PathBuf {
        self.root.join("rhome")
    }
    fn tpl(&self) -> PathBuf {
        self.root.join("tpl")
    }
    fn restore(&self) {
        for n in ["src", "dst", "rhome"] {
            wipe(&self.root.join(n));
            copy_dir(&self.tpl().join(n), &self.root.join(n));
        }
    }
    fn argv(&self, s: &S9) -> Vec<String> {
        let mut a = vec![cli_bin().to_string_lossy().into_owned(), "sync".into(), "-r".into(), "--jobs".into(), "1".into()];
        match s.flag {
            "delete" | "delete-long" => a.push("--delete".into()),
            "exclude" => {
                a.push("--exclude".into());
                a.push("o1".into());
            }
            _ => {}
        }
        let (sp, dp) = (self.src().to_string_lossy().into_owned(), self.dst().to_string_lossy().into_owned());
        match s.dir {
            "push" => {
                a.push(sp);
                a.push(format!("rh:{dp}"));
            }
            "pull" => {
                a.push(format!("rh:{sp}"));
                a.push(dp);
            }
            _ => {
                a.push(sp);
                a.push(dp);
            }
        }
        a
    }
    fn env(&self, log: Option<&Path>, kill_at: Option<u64>) -> BTreeMap<String, String> {
        let mut e: BTreeMap<String, String> = BTreeMap::new();
        e.insert("PATH".into(), format!("{STANDIN_DIR}:{}", std::env::var("PATH").unwrap_or_default()));
        e.insert("VSTANDIN_HOME".into(), self.rhome().to_string_lossy().into_owned());
        e.insert("VSTANDIN_BIN".into(), cli_bin().parent().map(|p| p.to_string_lossy().into_owned()).unwrap_or_default());
        e.insert("RUST_LOG".into(), "off".into());
        // one runtime worker: spawned transfer tasks are then polled in FIFO order, which (with
        // --jobs 1) makes the order of files deterministic
        e.insert("TOKIO_WORKER_THREADS".into(), "1".into());
        e.insert("HOME".into(), self.root.join("home").to_string_lossy().into_owned());
        if let Some(l) = log {
            let _ = std::fs::remove_file(l);
            e.insert("LD_PRELOAD".into(), SHIM.into());
            e.insert("VSHIM_ROOT".into(), self.root.to_string_lossy().into_owned());
            e.insert("VSHIM_LOG".into(), l.to_string_lossy().into_owned());
            e.insert("VSHIM_MODE".into(), if kill_at.is_some() { "inject".into() } else { "log".into() });
            if let Some(k) = kill_at {
                e.insert("VSHIM_KILL_AT".into(), k.to_string());
            }
        }
        e
    }
    fn run(&self, s: &S9, log: Option<&Path>, kill_at: Option<u64>) -> (Option<i32>, Option<i32>, String) {
        let (o, e) = (self.root.join("out.txt"), self.root.join("err.txt"));
        let (c, sg) = run_wait(&self.argv(s), &self.root, &self.env(log, kill_at), &o, &e);
        (c, sg, std::fs::read_to_string(&e).unwrap_or_default())
    }
}

fn s9_files(seed: u64) -> Vec<(&'static str, Vec<u8>)> {
    vec![("z0", Vec::new()), ("o1", b"1".to_vec()), ("m300", Rng::new(seed ^ 300).bytes(300 * 1024)), ("d/b700", Rng::new(seed ^ 700).bytes(700_000))]
}

fn s9_prepare(slot: &Slot9, s: &S9, seed: u64) {
    for n in ["src", "dst", "rhome", "tpl", "home"] {
        wipe(&slot.root.join(n));
    }
    let files = s9_files(seed);
    for (i, (p, b)) in files.iter().enumerate() {
        write_files(&slot.src(), &[(p, b.clone())]);
        crate::c19::set_mtime(&slot.src().join(p), 1_600_000_000 + i as i64, 123_000_000);
    }
    for (i, (p, b)) in files.iter().enumerate() {
        let st = match s.dst {
            // z0 (0 B): different size; o1 (1 B): same size; m300: ABSENT (a big new file); d/b700: different size
            "mixed" => ["diffsize", "samesize", "absent", "diffsize"][i % 4],
            x => x,
        };
        // an excluded path always exists on the destination with its own content (it must stay untouched)
        let st = if s.flag == "exclude" && *p == "o1" { "diffsize" } else { st };
        match st {
            "diffsize" => {
                write_files(&slot.dst(), &[(p, b"old-content-of-different-size".to_vec())]);
                crate::c19::set_mtime(&slot.dst().join(p), 1_500_000_000, 0);
            }
            "samesize" => {
                let other: Vec<u8> = b.iter().map(|x| x ^ 0x55).collect();
                write_files(&slot.dst(), &[(p, other)]);
                crate::c19::set_mtime(&slot.dst().join(p), 1_500_000_001, 0);
            }
            "insync" => {
                write_files(&slot.dst(), &[(p, b.clone())]);
                crate::c19::set_mtime(&slot.dst().join(p), 1_600_000_000 + i as i64, 7);
            }
            _ => {}
        }
    }
    if s.flag == "delete-long" {
        // a delete list far longer than a pipe buffer (and than any chunk a sender might cut it into): ~1000 stale
        // names of equal length. Wherever a cut at a multiple of 4096 bytes falls inside a name, an IN-SYNC file
        // (outside the plan) is given exactly the name that an unterminated tail of the list would spell.
        let names: Vec<String> = (0..1000).map(|i| format!("stale-{i:04}-{}", "x".repeat(100))).collect();
        for n in &names {
            write_files(&slot.dst(), &[(n.as_str(), b"stale".to_vec())]);
        }
        let root = slot.dst().to_string_lossy().into_owned();
        let entry = root.len() + 1 + names[0].len() + 1;
        let total = entry * names.len();
        let mut c = 4096usize;
        while c < total {
            let (j, o) = (c / entry, c % entry);
            if o > root.len() + 1 && o < entry - 1 {
                let live = &names[j][..o - (root.len() + 1)];
                for r in [slot.src(), slot.dst()] {
                    write_files(&r, &[(live, b"in sync, not in the plan".to_vec())]);
                    crate::c19::set_mtime(&r.join(live), 1_599_000_000, 0);
                }
            }
            c += 4096;
        }
    } else if s.flag == "delete" {
        write_files(&slot.dst(), &[("stale.txt", b"stale".to_vec()), ("d/stale2", b"s2".to_vec())]);
    } else {
        write_files(&slot.dst(), &[("keep.txt", b"destination only, no --delete".to_vec())]);
        crate::c19::set_mtime(&slot.dst().join("keep.txt"), 1_400_000_000, 5);
    }
    let _ = std::fs::create_dir_all(slot.dst());
    for n in ["src", "dst", "rhome"] {
        copy_dir(&slot.root.join(n), &slot.tpl().join(n));
    }
}

fn collapse_pipes(log: &[Rec], root: &Path) -> Vec<String> {
    let mut out: Vec<String> = Vec::new();
    let r = root.to_string_lossy().into_owned();
    for x in log {
        let line = if x.p1 == "<pipe>" { "pipe-write".to_string() } else if x.call == "write" || x.call == "copy_file_range" { format!("{} {}", x.call, x.p1.replace(&r, "$R")) } else { format!("{} {} {}", x.call, x.p1.replace(&r, "$R"), x.p2.replace(&r, "$R")) };
        if out.last() != Some(&line) {
            out.push(line);
        }
    }
    out
}

type Meta = BTreeMap<String, (Vec<u8>, i64, i64)>;

fn c09_state_check(s: &S9, src0: &Meta, dst0: &Meta, src_now: &Meta, dst_now: &Meta) -> Option<(String, String)> {
    if src_now != src0 {
        return Some(("source_modified".into(), "the source tree changed".into()));
    }
    let excluded = |p: &str| s.flag == "exclude" && p.split('/').any(|c| c == "o1");
    for (p, (bytes, ms, mn)) in dst_now.iter().filter(|(p, _)| !is_staging(p)) {
        let pre = dst0.get(p);
        let srcv = src0.get(p).filter(|_| !excluded(p));
        let in_plan = srcv.is_some();
        if in_plan {
            let ok_pre = pre.is_some_and(|x| x.0 == *bytes);
            let ok_src = srcv.is_some_and(|x| x.0 == *bytes);
            if !ok_pre && !ok_src {
                let srcb = &srcv.map(|x| x.0.clone()).unwrap_or_default();
                let kind = if srcb.starts_with(bytes) && bytes.len() < srcb.len() { "truncated_destination" } else { "mixed_destination" };
                return Some((kind.into(), format!("destination {p} holds {} bytes: neither its pre-run content ({} bytes) nor the source's ({} bytes)", bytes.len(), pre.map_or(0, |x| x.0.len()), srcb.len())));
            }
        } else {
            match pre {
                None => return Some(("unexpected_path".into(), format!("destination path {p} appeared although it is not in the plan"))),
                Some(x) => {
                    if x.0 != *bytes || x.1 != *ms || x.2 != *mn {
                        return Some(("outside_plan_touched".into(), format!("destination {p} is outside the plan but its bytes or mtime changed")));
                    }
                }
            }
        }
    }
    for p in dst0.keys().filter(|p| !is_staging(p)) {
        if !dst_now.contains_key(p) {
            let deletable = (s.flag == "delete" || s.flag == "delete-long") && !src0.contains_key(p);
            if !deletable {
                return Some(("destination_removed".into(), format!("destination {p} existed before the run and is gone")));
            }
        }
    }
    None
}

fn c09_scenario(slot: &Slot9, s: &S9, seed: u64, max_kills: u64, evals: &AtomicU64, nontrivial: &AtomicU64, positions: &Mutex<BTreeSet<String>>) -> Vec<Violation> {
    let name = s9_name(s);
    let mut out = Vec::new();
    let logp = slot.root.join("log");
    s9_prepare(slot, s, seed);
    let src0 = snapshot_meta(&slot.src());
    let dst0 = snapshot_meta(&slot.dst());
    slot.restore();
    let (c1, _, e1) = slot.run(s, Some(&logp), None);
    let l1 = read_log(&logp);
    let fin = snapshot_meta(&slot.dst());
    if c1 != Some(0) {
        machinery_error(format!("C09 scenario {name}: uninterrupted run failed: {c1:?} {e1}"));
    }
    slot.restore();
    let (c2, _, _) = slot.run(s, Some(&logp), None);
    let l2 = read_log(&logp);
    let fin2 = snapshot_meta(&slot.dst());
    let strip = |m: &Meta| -> BTreeMap<String, (Vec<u8>, i64)> { m.iter().filter(|(p, _)| !is_staging(p)).map(|(k, v)| (k.clone(), (v.0.clone(), v.1))).collect() };
    if c2 != Some(0) || collapse_pipes(&l1, &slot.root) != collapse_pipes(&l2, &slot.root) || strip(&fin) != strip(&fin2) {
        machinery_error(format!("C09 scenario {name}: two uninterrupted runs differ — nondeterminism not owned"));
    }
    if let Some((k, m)) = c09_state_check(s, &src0, &dst0, &snapshot_meta(&slot.src()), &fin) {
        // the completed run itself breaks the per-path rule → C04's business, but report it
        out.push(Violation::new(&k, format!("scenario {name}, uninterrupted run: {m}"), json!({"scenario": name, "kill_at": 0})).with("direction", json!(s.dir)));
        return out;
    }
    let det = |k: u64| json!({"scenario": name, "dir": s.dir, "dst": s.dst, "flag": s.flag, "kill_at": k});
    let mut k = 0u64;
    loop {
        k += 1;
        if k > max_kills {
            machinery_error(format!("C09 scenario {name}: more than {max_kills} kill points"));
        }
        slot.restore();
        let (code, sig, _) = slot.run(s, Some(&logp), Some(k));
        let klog = read_log(&logp);
        evals.fetch_add(1, Ordering::Relaxed);
        if sig != Some(libc::SIGKILL) {
            if code != Some(0) {
                machinery_error(format!("C09 scenario {name} kill_at {k}: run neither killed nor successful ({code:?})"));
            }
            break; // k is beyond the last call of this run
        }
        // crash position = (what the killed call was about, bytes delivered so far)
        if let Some(last) = klog.last() {
            let delivered: i64 = klog.iter().filter(|r| r.p1 == last.p1 && !r.killed_before).map(|r| r.copied.unwrap_or(r.size.max(0))).sum();
            if let Ok(mut g) = positions.lock() {
                g.insert(format!("{}:{}:{}", last.call, last.p1.rsplit('/').next().unwrap_or(""), delivered));
            }
        }
        let dst_now = snapshot_meta(&slot.dst());
        if strip(&dst_now) != strip(&dst0) && strip(&dst_now) != strip(&fin) {
            nontrivial.fetch_add(1, Ordering::Relaxed);
        }
        if let Some((kind, m)) = c09_state_check(s, &src0, &dst0, &snapshot_meta(&slot.src()), &dst_now) {
            out.push(Violation::new(&kind, format!("scenario {name}, sender killed before its call {k} ({}): {m}", klog.last().map(|r| format!("{} {}", r.call, r.p1.rsplit('/').next().unwrap_or(""))).unwrap_or_default()), det(k)).with("direction", json!(s.dir)));
            if out.len() >= 3 {
                return out;
            }
            continue;
        }
        // the same command, run to completion
        let (rc, _, re) = slot.run(s, None, None);
        let after = snapshot_meta(&slot.dst());
        if rc != Some(0) {
            out.push(Violation::new("rerun_fails", format!("scenario {name}, killed before call {k}: the re-run exits {rc:?}: {}", re.lines().last().unwrap_or("")), det(k)).with("direction", json!(s.dir)));
        } else if strip(&after) != strip(&fin) {
            let (sa, sf) = (strip(&after), strip(&fin));
            let diff: Vec<String> = sa.keys().chain(sf.keys()).filter(|p| sa.get(*p) != sf.get(*p)).cloned().collect::<BTreeSet<_>>().into_iter().collect();
            out.push(Violation::new("rerun_differs", format!("scenario {name}, killed before call {k}: after the re-run the destination differs from an uninterrupted run's at {diff:?}"), det(k)).with("direction", json!(s.dir)));
        }
        if out.len() >= 3 {
            return out;
        }
        // a SECOND crash: the re-run from this crash state is itself killed before every one of its calls; the
        // destination must still hold, path by path, the pre-run or the source version, and a third run completes
        let double = match C09_DOUBLE.load(Ordering::Relaxed) {
            0 => false,
            1 => s.dir == "local" && s.flag != "exclude",
            _ => s.dir == "local" || (s.dst == "mixed" && s.flag == "delete") || (s.dst == "absent" && s.flag == "none"),
        };
        let past_deadline = C09_DEADLINE.get().is_some_and(|d| std::time::Instant::now() > *d);
        if double && past_deadline {
            C09_SECOND_SKIPPED.fetch_add(1, Ordering::Relaxed);
        }
        if double && !past_deadline && out.is_empty() {
            slot.restore();
            let _ = slot.run(s, Some(&logp), Some(k));
            for nm in ["dst", "rhome"] {
                wipe(&slot.root.join("crash1").join(nm));
                copy_dir(&slot.root.join(nm), &slot.root.join("crash1").join(nm));
            }
            let mut j = 0u64;
            loop {
                j += 1;
                if j > C09_SECOND_CAP {
                    C09_SECOND_CAPPED.fetch_add(1, Ordering::Relaxed);
                    break;
                }
                for nm in ["dst", "rhome"] {
                    wipe(&slot.root.join(nm));
                    copy_dir(&slot.root.join("crash1").join(nm), &slot.root.join(nm));
                }
                let (code2, sig2, _) = slot.run(s, Some(&logp), Some(j));
                if sig2 != Some(libc::SIGKILL) {
                    if code2 != Some(0) {
                        out.push(Violation::new("rerun_fails", format!("scenario {name}, killed before call {k}: the re-run (interposer active, no kill reached at {j}) exits {code2:?}"), det(k)).with("direction", json!(s.dir)).with("second_crash", json!(true)));
                    }
                    break;
                }
                evals.fetch_add(1, Ordering::Relaxed);
                C09_SECOND_POINTS.fetch_add(1, Ordering::Relaxed);
                let d2 = json!({"scenario": name, "dir": s.dir, "dst": s.dst, "flag": s.flag, "kill_at": k, "second_kill_at": j});
                let dst_now = snapshot_meta(&slot.dst());
                if let Some((kind, m)) = c09_state_check(s, &src0, &dst0, &snapshot_meta(&slot.src()), &dst_now) {
                    out.push(Violation::new(&kind, format!("scenario {name}, killed before call {k}, re-run killed before ITS call {j}: {m}"), d2).with("direction", json!(s.dir)).with("second_crash", json!(true)));
                    break;
                }
                let (rc, _, re) = slot.run(s, None, None);
                let after = snapshot_meta(&slot.dst());
                if rc != Some(0) {
                    out.push(Violation::new("rerun_fails", format!("scenario {name}, killed before call {k}, re-run killed before its call {j}: the third run exits {rc:?}: {}", re.lines().last().unwrap_or("")), d2).with("direction", json!(s.dir)).with("second_crash", json!(true)));
                    break;
                } else if strip(&after) != strip(&fin) {
                    out.push(Violation::new("rerun_differs", format!("scenario {name}, killed before call {k}, re-run killed before its call {j}: after the third run the destination differs from an uninterrupted run's"), d2).with("direction", json!(s.dir)).with("second_crash", json!(true)));
                    break;
                }
            }
            if out.len() >= 3 {
                return out;
            }
        }
        // a history continues from the crash state: the source file that was in flight is replaced by a SHORTER
        // version, then the same command runs; afterwards the destination must hold exactly the new source bytes
        if s.flag != "delete-long" {
            let Some(inflight) = klog.iter().rev().find_map(|r| {
                let name = r.p1.rsplit('/').next().unwrap_or("");
                name.strip_suffix(".copia-tmp").map(str::to_string)
            }) else { continue };
            let Some((rel, _)) = src0.iter().find(|(p, _)| p.rsplit('/').next() == Some(inflight.as_str())) else { continue };
            slot.restore();
            let _ = slot.run(s, Some(&logp), Some(k));
            let short: Vec<u8> = b"shorter replacement of the file that was being transferred".to_vec();
            write_files(&slot.src(), &[(rel.as_str(), short.clone())]);
            crate::c19::set_mtime(&slot.src().join(rel), 1_600_000_500, 0);
            let (rc, _, re) = slot.run(s, None, None);
            evals.fetch_add(1, Ordering::Relaxed);
            let got = std::fs::read(slot.dst().join(rel)).ok();
            if rc != Some(0) {
                out.push(Violation::new("rerun_fails", format!("scenario {name}, killed before call {k}, then source {rel} replaced by a shorter file: the re-run exits {rc:?}: {}", re.lines().last().unwrap_or("")), det(k)).with("direction", json!(s.dir)).with("post_crash_edit", json!(true)));
            } else if got.as_deref() != Some(&short[..]) {
                out.push(Violation::new("mixed_destination", format!("scenario {name}, killed before call {k}, then source {rel} replaced by a shorter file ({} bytes): after the completed re-run the destination holds {} bytes that are not the new source", short.len(), got.as_ref().map_or(0, Vec::len)), det(k)).with("direction", json!(s.dir)).with("post_crash_edit", json!(true)));
            }
            if out.len() >= 3 {
                return out;
            }
        }
    }
    out
}

use std::sync::Mutex;
/// 0 = off, 1 = local direction only (quick), 2 = every scenario (thorough)
static C09_DOUBLE: AtomicU64 = AtomicU64::new(0);
static C09_SECOND_POINTS: AtomicU64 = AtomicU64::new(0);
static C09_SECOND_CAPPED: AtomicU64 = AtomicU64::new(0);
static C09_SECOND_SKIPPED: AtomicU64 = AtomicU64::new(0);
static C09_DEADLINE: std::sync::OnceLock<std::time::Instant> = std::sync::OnceLock::new();
/// second-level kill points per first-level crash state (a re-run with more calls is cut here and counted)
const C09_SECOND_CAP: u64 = 80;

pub fn run_c09(ctx: &Ctx) -> ! {
    let thorough = ctx.tier.is_thorough();
    C09_DOUBLE.store(if thorough || ctx.replay.is_some() { 2 } else { 1 }, Ordering::Relaxed);
    if ctx.replay.is_none() {
        // wall-clock budget of the second-crash enumeration (first crash states reached after it are counted, not explored)
        let _ = C09_DEADLINE.set(std::time::Instant::now() + std::time::Duration::from_secs(if thorough { 480 } else { 40 }));
    }
    let mut scs: Vec<S9> = Vec::new();
    if thorough {
        for dir in ["local", "pull", "push"] {
            for dst in ["absent", "diffsize", "samesize", "mixed"] {
                for flag in ["none", "delete", "exclude"] {
                    scs.push(S9 { dir, dst, flag });
                }
            }
        }
        scs.push(S9 { dir: "push", dst: "insync", flag: "delete-long" });
        scs.push(S9 { dir: "pull", dst: "insync", flag: "delete-long" });
    } else {
        for dir in ["local", "pull", "push"] {
            scs.push(S9 { dir, dst: "mixed", flag: "delete" });
        }
        scs.push(S9 { dir: "push", dst: "diffsize", flag: "exclude" });
        scs.push(S9 { dir: "push", dst: "insync", flag: "delete-long" });
        scs.push(S9 { dir: "local", dst: "absent", flag: "none" });
        scs.push(S9 { dir: "pull", dst: "absent", flag: "none" });
    }
    if let Some(rp) = &ctx.replay {
        let v: Value = serde_json::from_slice(&std::fs::read(rp).unwrap_or_default()).unwrap_or(Value::Null);
        let want = v["detail"]["scenario"].as_str().unwrap_or("").to_string();
        let mut all = Vec::new();
        for dir in ["local", "pull", "push"] {
            for dst in ["absent", "diffsize", "samesize", "mixed"] {
                for flag in ["none", "delete", "exclude"] {
                    all.push(S9 { dir, dst, flag });
                }
            }
        }
        all.push(S9 { dir: "push", dst: "insync", flag: "delete-long" });
        all.push(S9 { dir: "pull", dst: "insync", flag: "delete-long" });
        scs = all.into_iter().filter(|s| s9_name(s) == want).collect();
    }
    let evals = AtomicU64::new(0);
    let nontrivial = AtomicU64::new(0);
    let positions: Mutex<BTreeSet<String>> = Mutex::new(BTreeSet::new());
    let base = Scratch::new("e3c09");
    let seed = ctx.seed;
    let violations: Vec<Violation> = scs
        .par_iter()
        .enumerate()
        .flat_map_iter(|(i, s)| {
            let slot = Slot9 { root: base.path(&format!("w{i}")) };
            let _ = std::fs::create_dir_all(&slot.root);
            c09_scenario(&slot, s, seed, 3000, &evals, &nontrivial, &positions)
        })
        .collect();
    let mut violations = violations;
    // local direction with PARALLEL transfers (--jobs 2/3): kill points under the thread-level scheduler (E6), for
    // every schedule within the preemption bound and every point of it
    let mut tkill = json!(null);
    if ctx.replay.is_none() {
        let mut rows = Vec::new();
        let systems: Vec<(&'static str, usize, usize, u32, u64)> = if thorough { vec![("T7", 3, 4, 1, 400), ("T7", 2, 1, 1, 400), ("T8", 4, 4, 0, 100)] } else { vec![("T7", 3, 4, 0, 50), ("T7", 2, 1, 0, 50), ("T11", 3, 4, 0, 50)] };
        for (template, jobs, workers, bound, cap) in systems {
            let c = crate::e5::Cfg { dir: "local", delete: true, exclude: "", jobs, verbose: false, template };
            let (scheds, kills, vs) = crate::e6::explore_local_kills(&c, &["a"], bound, workers, cap, 16);
            evals.fetch_add(kills, Ordering::Relaxed);
            rows.push(json!({"config": crate::e5::cfg_name(&c), "tokio_workers": workers, "preemption_bound": bound, "schedules": scheds, "kill_runs": kills}));
            violations.extend(vs);
        }
        tkill = Value::Array(rows);
    }
    let npos = positions.lock().map(|g| g.len()).unwrap_or(0);
    let mut rep = Report::new("fault_enumeration");
    rep.set("thread_scheduler_kills_local_parallel", tkill);
    rep.set("evaluations", evals.load(Ordering::Relaxed))
        .set("distinct_nontrivial", nontrivial.load(Ordering::Relaxed))
        .set("distinct_crash_positions", npos as u64)
        .set("second_crash_kill_points", C09_SECOND_POINTS.load(Ordering::Relaxed))
        .set("second_crash_enumerations_cut_at_cap", json!({"cap": C09_SECOND_CAP, "count": C09_SECOND_CAPPED.load(Ordering::Relaxed)}))
        .set("second_crash_first_states_skipped_after_wall_budget", C09_SECOND_SKIPPED.load(Ordering::Relaxed))
        .set("scenarios", scs.iter().map(s9_name).collect::<Vec<_>>())
        .set("rule", "for the LOCAL direction with --jobs 2/3 every point of every thread schedule within a preemption bound is a kill point too (thread_scheduler_kills_local_parallel); per scenario (direction x destination state x flag; files of 0, 1, 300 KiB and 700 000 bytes, --jobs 1): the copia process is SIGKILLed immediately before its k-th file-system-mutating or pipe-write libc call for EVERY k until a run completes unkilled; the harness is a subreaper and waits for every orphaned child (the remote shell command of a push runs to completion on EOF); then the destination is checked path by path, and the same command is re-run to completion and compared with the uninterrupted run; SECOND CRASH (quick: local direction; thorough: local direction plus the mixed/--delete and absent/none scenarios of pull and push; within a wall budget, first crash states reached after it are counted as skipped): from every first crash state the re-run is itself killed before each of its first 80 calls (re-runs with more calls are counted as cut), same path-by-path rule against the ORIGINAL pre-run destination, then a third run must complete and equal the uninterrupted result; non-trivial = crash state differs from both the initial and the final destination")
        .set("samples", json!([{"scenario":"push-mixed-delete","kill_at":5},{"scenario":"local-mixed-delete","kill_at":9}]))
        .set("exhaustive_first_level", true)
        .set("exhaustive", C09_SECOND_CAPPED.load(Ordering::Relaxed) == 0 && C09_SECOND_SKIPPED.load(Ordering::Relaxed) == 0);
    rep.assume("SSH directions run through a stand-in: `ssh host cmd…` = bash -c \"cmd…\" in a per-run remote home (arguments joined by single spaces as OpenSSH does; remote login shell assumed to be bash); the network leg itself is out of scope");
    rep.assume("pipe-write counts depend on reader speed: determinism is required of the log with consecutive pipe writes collapsed, and k ranges over the calls of each actual run");
    finish(ctx, rep, violations);
}

// ═════════════════════════ shim-vs-strace audit ═════════════════════════

fn strace_events(path: &Path, root: &str) -> Vec<String> {
    let text = std::fs::read_to_string(path).unwrap_or_default();
    let mut out = Vec::new();
    let fdpath = |arg: &str| -> Option<String> {
        let i = arg.find('<')?;
        let j = arg.rfind('>')?;
        Some(arg[i + 1..j].to_string())
    };
    for line in text.lines() {
        // "<pid> syscall(args) = ret"
        let Some((_, rest)) = line.split_once(' ') else { continue };
        let rest = rest.trim_start();
        if rest.starts_with("<...") || rest.starts_with("+++") || rest.starts_with("---") {
            continue;
        }
        let Some(p) = rest.find('(') else { continue };
        let name = &rest[..p];
        let args = &rest[p + 1..];
        // failed calls are still calls the code made; keep them (the shim logs before the call)
        let quoted: Vec<String> = {
            let mut v = Vec::new();
            let b = args.as_bytes();
            let mut i = 0;
            while i < b.len() {
                if b[i] == b'"' {
                    let mut j = i + 1;
                    while j < b.len() && !(b[j] == b'"' && b[j - 1] != b'\\') {
                        j += 1;
                    }
                    v.push(args[i + 1..j.min(args.len())].to_string());
                    i = j + 1;
                } else {
                    i += 1;
                }
            }
            v
        };
        let first_arg = args.split(',').next().unwrap_or("");
        let abs = |dirarg: &str, p: &str| -> String {
            if p.starts_with('/') {
                p.to_string()
            } else {
                // *at() calls carry their directory as `AT_FDCWD</cwd>` / `N</dir>`; the others are relative to
                // the process's cwd, which the audit sets to the scratch root
                format!("{}/{}", fdpath(dirarg).unwrap_or_else(|| root.to_string()), p)
            }
        };
        let ev: Option<(String, String)> = match name {
            "openat" | "open" | "creat" => {
                let writing = args.contains("O_WRONLY") || args.contains("O_RDWR") || args.contains("O_CREAT") || args.contains("O_TRUNC") || name == "creat";
                if writing { quoted.first().map(|q| ("open".to_string(), abs(first_arg, q))) } else { None }
            }
            "write" | "writev" | "pwrite64" => fdpath(first_arg).map(|p| ("write".to_string(), p)),
            "copy_file_range" => args.split(',').nth(2).and_then(fdpath).map(|p| ("copy_file_range".to_string(), p)),
            "sendfile" => fdpath(first_arg).map(|p| ("sendfile".to_string(), p)),
            "fsync" | "fdatasync" => fdpath(first_arg).map(|p| ("fsync".to_string(), p)),
            "ftruncate" => fdpath(first_arg).map(|p| ("ftruncate".to_string(), p)),
            "fchmod" => fdpath(first_arg).map(|p| ("fchmod".to_string(), p)),
            "rename" => quoted.first().map(|q| ("rename".to_string(), abs("", q))),
            "renameat" | "renameat2" => quoted.first().map(|q| ("rename".to_string(), abs(first_arg, q))),
            "unlink" => quoted.first().map(|q| ("unlink".to_string(), abs("", q))),
            "unlinkat" => quoted.first().map(|q| ("unlink".to_string(), abs(first_arg, q))),
            "mkdir" => quoted.first().map(|q| ("mkdir".to_string(), abs("", q))),
            "mkdirat" => quoted.first().map(|q| ("mkdir".to_string(), abs(first_arg, q))),
            "rmdir" => quoted.first().map(|q| ("rmdir".to_string(), abs("", q))),
            "truncate" => quoted.first().map(|q| ("truncate".to_string(), abs("", q))),
            "chmod" => quoted.first().map(|q| ("chmod".to_string(), abs("", q))),
            "utimensat" => {
                if quoted.is_empty() { fdpath(first_arg).map(|p| ("futimens".to_string(), p)) } else { quoted.first().map(|q| ("utimens".to_string(), abs(first_arg, q))) }
            }
            // the interposer logs the EXISTING name for link (first path) and the NEW name for symlink (last path)
            "link" | "linkat" => quoted.first().map(|q| ("link".to_string(), abs(first_arg, q))),
            "symlink" | "symlinkat" => quoted.last().map(|q| ("symlink".to_string(), abs(first_arg, q))),
            _ => None,
        };
        if let Some((k, p)) = ev {
            let p = p.replace("//", "/");
            if (p == root || p.starts_with(&format!("{root}/"))) && !p.ends_with("/shim.log") {
                out.push(format!("{k} {}", p.replace(root, "$R")));
            }
        }
    }
    out
}

/// Run scenarios under BOTH strace and the interposer and require that every file-system-mutating
/// system call strace reports under the scratch root appears in the interposer log, in the same order.
/// A libc entry point the binary started to use and the shim does not interpose shows up here.
pub fn audit() -> Result<String, String> {
    if std::process::Command::new("strace").arg("-V").output().is_err() {
        return Err("SKIP: strace is not available".into());
    }
    let sc = Scratch::new("audit");
    let root = sc.root.to_string_lossy().into_owned();
    let mut report = Vec::new();
    let trace_set = "trace=openat,open,creat,write,writev,pwrite64,copy_file_range,sendfile,fsync,fdatasync,rename,renameat,renameat2,unlink,unlinkat,mkdir,mkdirat,rmdir,ftruncate,truncate,fchmod,chmod,utimensat,link,linkat,symlink,symlinkat";
    let mut run = |name: &str, args: &[&str], stdin_bytes: Option<Vec<u8>>, prep: &dyn Fn()| -> Result<(), String> {
        for d in ["A", "B", "home", "src", "dst"] {
            wipe(&sc.path(d));
        }
        prep();
        let (log, st) = (sc.path("shim.log"), sc.path("strace.out"));
        let _ = std::fs::remove_file(&log);
        let o = std::process::Command::new("strace")
            .args(["-f", "-y", "-s", "4096", "-o"])
            .arg(&st)
            .args(["-e", trace_set])
            .arg(cli_bin())
            .args(args)
            .current_dir(&sc.root)
            .env("HOME", sc.path("home"))
            .env("HOSTNAME", "vhost")
            .env("RUST_LOG", "off")
            .env("TOKIO_WORKER_THREADS", "1")
            .env("LD_PRELOAD", SHIM)
            .env("VSHIM_MODE", "log")
            .env("VSHIM_LOG", &log)
            .env("VSHIM_ROOT", &sc.root)
            .stdin(match &stdin_bytes {
                Some(b) => {
                    let f = sc.path("stdin.bin");
                    let _ = std::fs::write(&f, b);
                    std::process::Stdio::from(std::fs::File::open(&f).map_err(|e| format!("{e}"))?)
                }
                None => std::process::Stdio::null(),
            })
            .output()
            .map_err(|e| format!("strace: {e}"))?;
        let _ = o;
        let want = strace_events(&st, &root);
        let got: Vec<String> = read_log(&log).iter().map(|r| format!("{} {}", r.call, r.p1.replace(&root, "$R"))).collect();
        if want.is_empty() {
            return Err(format!("SKIP: audit scenario {name}: strace saw no mutating call (ptrace not permitted?)"));
        }
        if want != got {
            let i = want.iter().zip(got.iter()).position(|(a, b)| a != b).unwrap_or(want.len().min(got.len()));
            return Err(format!("audit scenario {name}: interposer log and strace differ at event {i}: strace {:?} vs shim {:?} ({} vs {} events)", want.get(i), got.get(i), want.len(), got.len()));
        }
        report.push(format!("{name}: {} mutating calls agree", want.len()));
        Ok(())
    };
    let z = b"Z-base\n".to_vec();
    run("bisync-first-run", &["bisync", "A", "B"], None, &|| {
        write_files(&sc.path("A"), &[("d/a", z.clone()), ("same", b"S".to_vec()), ("diff", b"XXXX".to_vec())]);
        write_files(&sc.path("B"), &[("two", b"2".to_vec()), ("same", b"S".to_vec()), ("diff", b"YY".to_vec())]);
    })?;
    run("sync-local-delete", &["sync", "-r", "--jobs", "1", "--delete", "src", "dst"], None, &|| {
        write_files(&sc.path("src"), &[("a", b"aaa".to_vec()), ("d/b", Rng::new(3).bytes(300_000)), ("e", Vec::new())]);
        write_files(&sc.path("dst"), &[("a", b"old".to_vec()), ("stale", b"s".to_vec())]);
    })?;
    // a hub session: Put (commit), Put with a stale expected (conflict-copy), Delete, Bye
    let session = {
        use crate::wire::Request;
        let frame = |r: &Request| {
            let mut v = Vec::new();
            let _ = crate::wire::write_frame(&mut v, r);
            v
        };
        let hh = |b: &[u8]| *blake3::hash(b).as_bytes();
        let mut s = crate::wire::MAGIC.to_vec();
        s.extend(frame(&Request::Hello { version: 1 }));
        s.extend(frame(&Request::Put { path: "d/x".into(), expected: None, len: 3, hash: hh(b"abc") }));
        s.extend_from_slice(b"abc");
        s.extend(frame(&Request::Put { path: "d/x".into(), expected: None, len: 2, hash: hh(b"zz") }));
        s.extend_from_slice(b"zz");
        s.extend(frame(&Request::Delete { path: "d/x".into(), expected: Some(hh(b"abc")) }));
        s.extend(frame(&Request::Bye));
        s
    };
    run("serve-session", &["serve", "dst"], Some(session), &|| {})?;
    Ok(report.join("; "))
}
