//! E3 — crash-point and torn-write enumeration with the LD_PRELOAD fault injector.
//! C08: bisync is crash-safe. C09: one-way delivery is atomic under a crash at any point.

use crate::common::*;
use rayon::prelude::*;
use serde_json::{json, Value};
use std::collections::{BTreeMap, BTreeSet};
use std::path::{Path, PathBuf};
use std::sync::atomic::{AtomicU64, Ordering};

pub const SHIM: &str = "/verif/build/libvshim.so";
pub const STANDIN_DIR: &str = "/verif/standin";

type Files = BTreeMap<String, Vec<u8>>;

pub fn snapshot_dir(root: &Path) -> Files {
    let mut out = Files::new();
    let mut stack = vec![root.to_path_buf()];
    while let Some(d) = stack.pop() {
        let Ok(rd) = std::fs::read_dir(&d) else { continue };
        for e in rd.flatten() {
            let p = e.path();
            let Ok(md) = std::fs::symlink_metadata(&p) else { continue };
            if md.is_dir() {
                stack.push(p);
            } else {
                let rel = p.strip_prefix(root).map(|x| x.to_string_lossy().into_owned()).unwrap_or_default();
                out.insert(rel, std::fs::read(&p).unwrap_or_default());
            }
        }
    }
    out
}

/// rel path -> (bytes, mtime whole seconds)
pub fn snapshot_meta(root: &Path) -> BTreeMap<String, (Vec<u8>, i64, i64)> {
    use std::os::unix::fs::MetadataExt;
    let mut out = BTreeMap::new();
    let mut stack = vec![root.to_path_buf()];
    while let Some(d) = stack.pop() {
        let Ok(rd) = std::fs::read_dir(&d) else { continue };
        for e in rd.flatten() {
            let p = e.path();
            let Ok(md) = std::fs::symlink_metadata(&p) else { continue };
            if md.is_dir() {
                stack.push(p);
            } else {
                let rel = p.strip_prefix(root).map(|x| x.to_string_lossy().into_owned()).unwrap_or_default();
                out.insert(rel, (std::fs::read(&p).unwrap_or_default(), md.mtime(), md.mtime_nsec()));
            }
        }
    }
    out
}

pub fn copy_dir(src: &Path, dst: &Path) {
    use std::os::unix::fs::MetadataExt;
    let _ = std::fs::create_dir_all(dst);
    let Ok(rd) = std::fs::read_dir(src) else { return };
    for e in rd.flatten() {
        let p = e.path();
        let to = dst.join(e.file_name());
        let Ok(md) = std::fs::symlink_metadata(&p) else { continue };
        if md.is_dir() {
            copy_dir(&p, &to);
        } else {
            if std::fs::copy(&p, &to).is_err() {
                machinery_error(format!("copy {} -> {}", p.display(), to.display()));
            }
            crate::c19::set_mtime(&to, md.mtime(), md.mtime_nsec());
        }
    }
}

fn wipe(d: &Path) {
    let _ = std::fs::remove_dir_all(d);
    let _ = std::fs::create_dir_all(d);
}

fn write_files(root: &Path, files: &[(&str, Vec<u8>)]) {
    for (p, b) in files {
        let full = root.join(p);
        if let Some(d) = full.parent() {
            let _ = std::fs::create_dir_all(d);
        }
        if std::fs::write(&full, b).is_err() {
            machinery_error(format!("write {}", full.display()));
        }
    }
}

// ───────────── shim log ─────────────

#[derive(Clone, Debug)]
pub struct Rec {
    pub n: u64,
    pub call: String,
    pub p1: String,
    pub p2: String,
    pub size: i64,
    pub flags: i64,
    pub copied: Option<i64>,
    pub killed_before: bool,
}

fn unesc(s: &str) -> String {
    let b = s.as_bytes();
    let mut out = Vec::new();
    let mut i = 0;
    while i < b.len() {
        if b[i] == b'\\' && i + 3 < b.len() && b[i + 1] == b'x' {
            if let Ok(v) = u8::from_str_radix(&s[i + 2..i + 4], 16) {
                out.push(v);
                i += 4;
                continue;
            }
        }
        out.push(b[i]);
        i += 1;
    }
    String::from_utf8_lossy(&out).into_owned()
}

pub fn read_log(p: &Path) -> Vec<Rec> {
    let text = std::fs::read_to_string(p).unwrap_or_default();
    let mut out: Vec<Rec> = Vec::new();
    for l in text.lines() {
        let f: Vec<&str> = l.split('\t').collect();
        if f.len() < 7 {
            continue;
        }
        if f[0] == "=" {
            if let Some(last) = out.last_mut() {
                last.copied = f[5].parse().ok();
            }
            continue;
        }
        out.push(Rec { n: f[0].parse().unwrap_or(0), call: f[2].to_string(), p1: unesc(f[3]), p2: unesc(f[4]), size: f[5].parse().unwrap_or(0), flags: f[6].parse().unwrap_or(0), copied: None, killed_before: f.get(7) == Some(&"KILLED-BEFORE") });
    }
    out.sort_by_key(|r| r.n);
    out
}

fn normalise(log: &[Rec], root: &Path) -> Vec<String> {
    let r = root.to_string_lossy().into_owned();
    log.iter().map(|x| format!("{} {} {} {} {:?}", x.call, x.p1.replace(&r, "$R"), x.p2.replace(&r, "$R"), x.size, x.copied)).collect()
}

pub struct RunOut {
    pub code: Option<i32>,
    pub signal: Option<i32>,
    pub stdout: String,
    pub stderr: String,
}

/// Run the CLI (optionally under the injector). `root` = VSHIM_ROOT prefix.
pub fn run_cli_inj(args: &[&str], cwd: &Path, envs: &[(&str, String)], root: &Path, log: Option<&Path>, kill_at: Option<u64>) -> RunOut {
    use std::os::unix::process::ExitStatusExt;
    let mut c = std::process::Command::new(cli_bin());
    c.args(args).current_dir(cwd).env("RUST_LOG", "off").env("HOSTNAME", "vhost").stdin(std::process::Stdio::null());
    for (k, v) in envs {
        c.env(k, v);
    }
    if let Some(l) = log {
        let _ = std::fs::remove_file(l);
        c.env("LD_PRELOAD", SHIM).env("VSHIM_ROOT", root).env("VSHIM_LOG", l);
        match kill_at {
            Some(k) => {
                c.env("VSHIM_MODE", "inject").env("VSHIM_KILL_AT", k.to_string());
            }
            None => {
                c.env("VSHIM_MODE", "log");
            }
        }
    }
    let o = c.output().unwrap_or_else(|e| machinery_error(format!("spawn copia: {e}")));
    RunOut { code: o.status.code(), signal: o.status.signal(), stdout: String::from_utf8_lossy(&o.stdout).into_owned(), stderr: String::from_utf8_lossy(&o.stderr).into_owned() }
}

// ═════════════════════════ C08 ═════════════════════════

struct Scn {
    name: &'static str,
    init_a: Vec<(&'static str, Vec<u8>)>,
    init_b: Vec<(&'static str, Vec<u8>)>,
    prior_sync: bool,
    /// (side, path, Some(bytes) = write / None = delete)
    edits: Vec<(char, &'static str, Option<Vec<u8>>)>,
}

fn big(seed: u64) -> Vec<u8> {
    Rng::new(seed ^ 0xB16).bytes(300 * 1024)
}

fn scenarios(seed: u64, thorough: bool) -> Vec<Scn> {
    let x = || b"XXXX-version\n".to_vec();
    let y = || b"YY-other\n".to_vec();
    let z = || b"Z-base-content\n".to_vec();
    let both = |v: Vec<u8>| vec![("f", v)];
    let mut s = vec![
        Scn { name: "S2-propagate-A-to-B", init_a: both(z()), init_b: both(z()), prior_sync: true, edits: vec![('A', "f", Some(x()))] },
        Scn { name: "S6-both-changed", init_a: both(z()), init_b: both(z()), prior_sync: true, edits: vec![('A', "f", Some(x())), ('B', "f", Some(y()))] },
        Scn {
            name: "S8-first-run-no-archive",
            init_a: vec![("one", b"1".to_vec()), ("same", b"S".to_vec()), ("diff", x())],
            init_b: vec![("two", b"2".to_vec()), ("same", b"S".to_vec()), ("diff", y())],
            prior_sync: false,
            edits: vec![],
        },
    ];
    if thorough {
        s.extend(vec![
            Scn { name: "S1-create", init_a: vec![("k", z())], init_b: vec![("k", z())], prior_sync: true, edits: vec![('A', "new/f", Some(x()))] },
            Scn { name: "S3-propagate-B-to-A", init_a: both(z()), init_b: both(z()), prior_sync: true, edits: vec![('B', "f", Some(y()))] },
            Scn { name: "S4-delete-A", init_a: both(z()), init_b: both(z()), prior_sync: true, edits: vec![('A', "f", None)] },
            Scn { name: "S5-delete-B", init_a: both(z()), init_b: both(z()), prior_sync: true, edits: vec![('B', "f", None)] },
            Scn { name: "S7-delete-vs-modify", init_a: both(z()), init_b: both(z()), prior_sync: true, edits: vec![('A', "f", None), ('B', "f", Some(y()))] },
            Scn {
                name: "S9-several-paths",
                init_a: vec![("d/a", z()), ("d/e/b", z()), ("c", b"cc".to_vec()), ("k", b"kk".to_vec())],
                init_b: vec![("d/a", z()), ("d/e/b", z()), ("c", b"cc".to_vec()), ("k", b"kk".to_vec())],
                prior_sync: true,
                edits: vec![('A', "d/a", Some(x())), ('A', "c", None), ('B', "k", Some(y())), ('A', "d/e/b", Some(x())), ('B', "d/e/b", Some(y())), ('A', "n/x", Some(b"new".to_vec()))],
            },
            Scn { name: "S10-propagate-300KiB", init_a: both(z()), init_b: both(z()), prior_sync: true, edits: vec![('A', "f", Some(big(seed)))] },
        ]);
    }
    s
}

struct Slot {
    root: PathBuf,
}
impl Slot {
    fn a(&self) -> PathBuf {
        self.root.join("A")
    }
    fn b(&self) -> PathBuf {
        self.root.join("B")
    }
    fn home(&self) -> PathBuf {
        self.root.join("home")
    }
    fn tpl(&self) -> PathBuf {
        self.root.join("tpl")
    }
    fn restore(&self) {
        for n in ["A", "B", "home"] {
            wipe(&self.root.join(n));
            copy_dir(&self.tpl().join(n), &self.root.join(n));
        }
    }
    fn bisync(&self, log: Option<&Path>, kill_at: Option<u64>) -> RunOut {
        run_cli_inj(&["bisync", "A", "B"], &self.root, &[("HOME", self.home().to_string_lossy().into_owned())], &self.root, log, kill_at)
    }
    fn prepare(&self, s: &Scn) {
        for n in ["A", "B", "home", "tpl"] {
            wipe(&self.root.join(n));
        }
        write_files(&self.a(), &s.init_a);
        write_files(&self.b(), &s.init_b);
        if s.prior_sync {
            let r = self.bisync(None, None);
            if r.code != Some(0) {
                machinery_error(format!("scenario {} prior sync failed: {:?} {}", s.name, r.code, r.stderr));
            }
        }
        for (side, p, v) in &s.edits {
            let root = if *side == 'A' { self.a() } else { self.b() };
            match v {
                Some(b) => write_files(&root, &[(p, b.clone())]),
                None => {
                    let _ = std::fs::remove_file(root.join(p));
                }
            }
        }
        for n in ["A", "B", "home"] {
            copy_dir(&self.root.join(n), &self.tpl().join(n));
        }
    }
    fn state(&self) -> (Files, Files, Files) {
        (snapshot_dir(&self.a()), snapshot_dir(&self.b()), snapshot_dir(&self.home()))
    }
}

fn is_staging(p: &str) -> bool {
    p.ends_with(".copia-tmp") || p.contains(".copia-tmp.")
}
fn non_staging(f: &Files) -> Files {
    f.iter().filter(|(k, _)| !is_staging(k)).map(|(k, v)| (k.clone(), v.clone())).collect()
}
fn archive_main(home: &Files) -> Option<(&String, &Vec<u8>)> {
    home.iter().find(|(k, _)| k.ends_with(".json"))
}

/// path of which `p` is (possibly) a conflict-copy
fn conflict_base(p: &str) -> Option<&str> {
    p.find(".conflict-").map(|i| &p[..i])
}

/// State invariant of C08 on one crash state.
fn c08_invariant(pre: &(Files, Files, Files), fin: &(Files, Files, Files), st: &(Files, Files, Files)) -> Option<(String, String)> {
    let (pa, pb, ph) = pre;
    let allowed = |p: &str| -> Vec<&Vec<u8>> {
        let mut v = Vec::new();
        for t in [pa, pb] {
            if let Some(x) = t.get(p) {
                v.push(x);
            }
            if let Some(q) = conflict_base(p) {
                if let Some(x) = t.get(q) {
                    v.push(x);
                }
            }
        }
        v
    };
    for (side, t) in [("A", &st.0), ("B", &st.1)] {
        for (p, bytes) in t.iter().filter(|(p, _)| !is_staging(p)) {
            if !allowed(p).iter().any(|x| *x == bytes) {
                let kind = if allowed(p).iter().any(|x| x.starts_with(bytes)) || bytes.is_empty() { "partial_file" } else { "foreign_bytes" };
                return Some((kind.into(), format!("side {side} path {p} holds {} bytes that are not a complete pre-run / delivered version", bytes.len())));
            }
        }
    }
    // archive: old, absent or new
    let old = archive_main(ph).map(|x| x.1.clone());
    let new = archive_main(&fin.2).map(|x| x.1.clone());
    match archive_main(&st.2).map(|x| x.1.clone()) {
        None => {}
        Some(cur) => {
            if Some(&cur) == old.as_ref() && old != new {
                // still the old record: fine
            } else if Some(&cur) == new.as_ref() {
                // the new record: everything it describes must be on both sides with that hash
                let v: Value = serde_json::from_slice(&cur).unwrap_or(Value::Null);
                if let Some(ent) = v["entries"].as_object() {
                    for (p, fp) in ent {
                        let h: Vec<u8> = fp["blake3"].as_array().map(|a| a.iter().filter_map(|x| x.as_u64().map(|n| n as u8)).collect()).unwrap_or_default();
                        for (side, t) in [("A", &st.0), ("B", &st.1)] {
                            match t.get(p) {
                                Some(b) if blake3::hash(b).as_bytes()[..] == h[..] => {}
                                other => {
                                    return Some(("record_ahead_of_data".into(), format!("the NEW recorded state is on disk but side {side} path {p} {} the recorded hash", if other.is_some() { "does not have" } else { "is missing, so it cannot have" })));
                                }
                            }
                        }
                    }
                }
            } else if cur.is_empty() || old.as_ref().is_some_and(|o| o.starts_with(&cur)) || new.as_ref().is_some_and(|n| n.starts_with(&cur)) {
                return Some(("archive_torn".into(), format!("recorded state file is a partial write ({} bytes)", cur.len())));
            } else {
                return Some(("archive_other".into(), "recorded state is neither the old nor the new one".into()));
            }
        }
    }
    None
}

/// Trace-order invariant on the uninterrupted log.
fn c08_trace_order(log: &[Rec]) -> Option<(String, String)> {
    let mut last_data: BTreeMap<String, u64> = BTreeMap::new();
    let mut last_sync: BTreeMap<String, u64> = BTreeMap::new();
    let mut data_renames_pending: BTreeSet<String> = BTreeSet::new();
    for r in log {
        match r.call.as_str() {
            "open" if r.flags & (libc::O_WRONLY | libc::O_RDWR | libc::O_TRUNC | libc::O_CREAT) as i64 != 0 => {
                if r.p1.ends_with(".copia-tmp") {
                    data_renames_pending.insert(r.p1.clone());
                }
                last_data.insert(r.p1.clone(), r.n);
            }
            "write" | "copy_file_range" | "sendfile" | "splice" | "ftruncate" => {
                last_data.insert(r.p1.clone(), r.n);
            }
            "fsync" => {
                last_sync.insert(r.p1.clone(), r.n);
            }
            "rename" => {
                let staged = r.p1.ends_with(".copia-tmp") || r.p1.ends_with(".json.tmp");
                if staged {
                    let d = last_data.get(&r.p1).copied().unwrap_or(0);
                    let s = last_sync.get(&r.p1).copied().unwrap_or(0);
                    if s < d {
                        return Some(("rename_before_fsync".into(), format!("call {}: rename of {} into place without an fsync after its last data write (call {d})", r.n, r.p1.rsplit('/').next().unwrap_or(""))));
                    }
                }
                data_renames_pending.remove(&r.p1);
                if r.p2.ends_with(".json") && r.p1.ends_with(".json.tmp") && !data_renames_pending.is_empty() {
                    return Some(("record_before_data".into(), format!("call {}: the recorded state is renamed into place while staged data files are still pending: {data_renames_pending:?}", r.n)));
                }
            }
            _ => {}
        }
    }
    None
}

/// Dirty (written since last fsync) files at the point where the first `upto` records have executed.
/// Returns current path -> (synced_len, written_len).
fn dirty_files(log: &[Rec], upto: u64) -> BTreeMap<String, (u64, u64)> {
    let mut f: BTreeMap<String, (u64, u64)> = BTreeMap::new();
    for r in log.iter().filter(|r| r.n <= upto && !r.killed_before) {
        match r.call.as_str() {
            "open" => {
                if r.flags & (libc::O_TRUNC | libc::O_CREAT) as i64 != 0 && r.flags & (libc::O_WRONLY | libc::O_RDWR) as i64 != 0 {
                    f.insert(r.p1.clone(), (0, 0));
                }
            }
            "write" => {
                if let Some(e) = f.get_mut(&r.p1) {
                    e.1 += r.size.max(0) as u64;
                }
            }
            "copy_file_range" | "sendfile" | "splice" => {
                if let Some(e) = f.get_mut(&r.p1) {
                    e.1 += r.copied.unwrap_or(0).max(0) as u64;
                }
            }
            "fsync" => {
                if let Some(e) = f.get_mut(&r.p1) {
                    e.0 = e.1;
                }
            }
            "rename" => {
                if let Some(e) = f.remove(&r.p1) {
                    f.insert(r.p2.clone(), e);
                }
            }
            "unlink" => {
                f.remove(&r.p1);
            }
            _ => {}
        }
    }
    f.retain(|_, (s, w)| w > s);
    f
}

fn c02_lost(pre: &(Files, Files, Files), post: &(Files, Files, Files)) -> Option<String> {
    // every pre-crash version (incl. what the run already delivered) must still exist on both sides afterwards
    // unless it is the recorded base and the other side changed it — approximated conservatively:
    // only versions that differ from the archive-recorded hash for that path are required to survive.
    let base: BTreeMap<String, Vec<u8>> = archive_main(&pre.2)
        .and_then(|(_, b)| serde_json::from_slice::<Value>(b).ok())
        .and_then(|v| v["entries"].as_object().cloned())
        .map(|m| m.into_iter().map(|(p, fp)| (p, fp["blake3"].as_array().map(|a| a.iter().filter_map(|x| x.as_u64().map(|n| n as u8)).collect::<Vec<u8>>()).unwrap_or_default())).collect())
        .unwrap_or_default();
    for (side, t) in [("A", &pre.0), ("B", &pre.1)] {
        for (p, bytes) in t.iter().filter(|(p, _)| !is_staging(p)) {
            let h = blake3::hash(bytes);
            if base.get(p).is_some_and(|b| b[..] == h.as_bytes()[..]) {
                continue; // the last common version may legitimately be superseded
            }
            for (s2, post_t) in [("A", &post.0), ("B", &post.1)] {
                let ok = post_t.get(p) == Some(bytes) || post_t.iter().any(|(q, b)| b == bytes && q.starts_with(&format!("{p}.conflict-")));
                if !ok {
                    return Some(format!("version of {p} ({} bytes) present on side {side} at the crash is gone from side {s2} after recovery", bytes.len()));
                }
            }
        }
    }
    None
}

fn c08_scenario(slot: &Slot, s: &Scn, max_subsets: usize, evals: &AtomicU64, nontrivial: &AtomicU64, positions: &AtomicU64) -> Vec<Violation> {
    let mut out: Vec<Violation> = Vec::new();
    let logp = slot.root.join("log");
    slot.prepare(s);
    let pre = slot.state();
    // (1) uninterrupted, twice: determinism + N
    slot.restore();
    let r1 = slot.bisync(Some(&logp), None);
    let log1 = read_log(&logp);
    let fin = slot.state();
    slot.restore();
    let r2 = slot.bisync(Some(&logp), None);
    let log2 = read_log(&logp);
    if normalise(&log1, &slot.root) != normalise(&log2, &slot.root) || r1.code != r2.code || slot.state() != fin {
        machinery_error(format!("scenario {}: two uninterrupted runs differ (log or final state) — nondeterminism not owned", s.name));
    }
    if !(r1.code == Some(0) || (r1.code == Some(1) && r1.stderr.contains("had conflicts"))) {
        machinery_error(format!("scenario {}: uninterrupted run failed: {:?} {}", s.name, r1.code, r1.stderr));
    }
    let n = log1.len() as u64;
    let det = |k: u64, torn: &Value| json!({"scenario": s.name, "kill_at": k, "torn": torn});
    // trace-order invariant
    evals.fetch_add(1, Ordering::Relaxed);
    if let Some((k, m)) = c08_trace_order(&log1) {
        out.push(Violation::new(&k, format!("scenario {}: {m}", s.name), det(0, &Value::Null)).with("scenario", json!(s.name)));
    }
    // (3) every kill point
    for k in 1..=n + 1 {
        slot.restore();
        let rk = slot.bisync(Some(&logp), Some(k));
        let klog = read_log(&logp);
        if k <= n {
            if rk.signal != Some(libc::SIGKILL) {
                machinery_error(format!("scenario {} kill_at {k}: process was not killed (code {:?}, signal {:?})", s.name, rk.code, rk.signal));
            }
            // the prefix of the killed run must be the prefix of the reference log
            let a = normalise(&klog[..klog.len().saturating_sub(1)], &slot.root);
            let b = normalise(&log1[..(k as usize - 1).min(log1.len())], &slot.root);
            if a != b {
                machinery_error(format!("scenario {} kill_at {k}: log prefix diverges from the uninterrupted run", s.name));
            }
        }
        let kill_state = slot.state();
        positions.fetch_add(1, Ordering::Relaxed);
        // torn variants: subsets of dirty files
        let dirty = dirty_files(&klog, k.saturating_sub(1));
        let dnames: Vec<&String> = dirty.keys().collect();
        let nsub = (1usize << dnames.len().min(6)).min(max_subsets.max(1));
        let mut variants: Vec<Value> = vec![Value::Null];
        for mask in 1..nsub {
            for mode in ["empty", "half"] {
                variants.push(json!({"mask": mask, "mode": mode}));
            }
        }
        if !dnames.is_empty() && nsub < (1usize << dnames.len().min(6)) {
            // always include "all dirty files torn"
            variants.push(json!({"mask": (1usize << dnames.len().min(6)) - 1, "mode": "empty"}));
        }
        for torn in variants {
            evals.fetch_add(1, Ordering::Relaxed);
            // materialise this crash state
            if !torn.is_null() {
                for n in ["A", "B", "home"] {
                    wipe(&slot.root.join(n));
                }
                for (n, t) in [("A", &kill_state.0), ("B", &kill_state.1), ("home", &kill_state.2)] {
                    for (p, b) in t {
                        write_files(&slot.root.join(n), &[(p.as_str(), b.clone())]);
                    }
                }
                let mask = torn["mask"].as_u64().unwrap_or(0);
                for (i, name) in dnames.iter().enumerate().take(6) {
                    if mask & (1 << i) != 0 {
                        let (synced, written) = dirty[*name];
                        let keep = if torn["mode"] == "empty" { synced } else { synced + (written - synced) / 2 };
                        if let Ok(f) = std::fs::OpenOptions::new().write(true).open(name.as_str()) {
                            let _ = f.set_len(keep);
                        }
                    }
                }
            }
            let st = slot.state();
            if st != pre && st != fin {
                nontrivial.fetch_add(1, Ordering::Relaxed);
            }
            if let Some((kind, m)) = c08_invariant(&pre, &fin, &st) {
                out.push(Violation::new(&kind, format!("scenario {} killed before call {k}{}: {m}", s.name, if torn.is_null() { String::new() } else { format!(" + power loss {torn}") }), det(k, &torn)).with("scenario", json!(s.name)).with("torn", json!(!torn.is_null())));
                if out.len() >= 4 {
                    return out;
                }
                continue;
            }
            // (5) recovery
            let mut ok = false;
            let mut last_err = String::new();
            for _ in 0..3 {
                let r = slot.bisync(None, None);
                if r.code == Some(0) || (r.code == Some(1) && r.stderr.contains("had conflicts")) {
                    ok = true;
                    break;
                }
                last_err = r.stderr;
            }
            let after = slot.state();
            if !ok {
                out.push(Violation::new("recovery_fails", format!("scenario {} killed before call {k}: three recovery runs all failed: {}", s.name, last_err.lines().last().unwrap_or("")), det(k, &torn)).with("scenario", json!(s.name)));
            } else if non_staging(&after.0) != non_staging(&fin.0) || non_staging(&after.1) != non_staging(&fin.1) {
                out.push(Violation::new("recovery_differs", format!("scenario {} killed before call {k}{}: after recovery the trees differ from the uninterrupted run's (A: {:?} vs {:?})", s.name, if torn.is_null() { String::new() } else { format!(" + power loss {torn}") }, non_staging(&after.0).keys().collect::<Vec<_>>(), non_staging(&fin.0).keys().collect::<Vec<_>>()), det(k, &torn)).with("scenario", json!(s.name)).with("torn", json!(!torn.is_null())));
            } else if let Some(m) = c02_lost(&st, &after) {
                out.push(Violation::new("recovery_loses_version", format!("scenario {} killed before call {k}: {m}", s.name), det(k, &torn)).with("scenario", json!(s.name)));
            }
            if out.len() >= 4 {
                return out;
            }
        }
    }
    out
}

pub fn run_c08(ctx: &Ctx) -> ! {
    let thorough = ctx.tier.is_thorough();
    let scs = scenarios(ctx.seed, thorough);
    let evals = AtomicU64::new(0);
    let nontrivial = AtomicU64::new(0);
    let positions = AtomicU64::new(0);
    let base = Scratch::new("e3c08");
    let only: Option<String> = ctx.replay.as_ref().and_then(|rp| serde_json::from_slice::<Value>(&std::fs::read(rp).unwrap_or_default()).ok()).and_then(|v| v["detail"]["scenario"].as_str().map(str::to_string));
    let all = scenarios(ctx.seed, true);
    let chosen: Vec<&Scn> = match &only {
        Some(n) => all.iter().filter(|s| s.name == n).collect(),
        None => scs.iter().collect(),
    };
    let max_subsets = if thorough { 64 } else { 8 };
    let violations: Vec<Violation> = chosen
        .par_iter()
        .enumerate()
        .flat_map_iter(|(i, s)| {
            let slot = Slot { root: base.path(&format!("w{i}")) };
            let _ = std::fs::create_dir_all(&slot.root);
            c08_scenario(&slot, s, max_subsets, &evals, &nontrivial, &positions)
        })
        .collect();
    let mut rep = Report::new("fault_enumeration");
    rep.set("evaluations", evals.load(Ordering::Relaxed))
        .set("distinct_nontrivial", nontrivial.load(Ordering::Relaxed))
        .set("kill_points", positions.load(Ordering::Relaxed))
        .set("scenarios", chosen.iter().map(|s| s.name).collect::<Vec<_>>())
        .set("rule", "per scenario (prepared by a real prior sync so a trusted archive exists): the process is SIGKILLed immediately before its k-th file-system-mutating libc call for EVERY k = 1..N+1 (N from the interposer log of the uninterrupted run, which is replayed twice for determinism); at each k additionally every subset (capped) of files written since their last fsync is torn (empty / half) — crash model: metadata operations persist in issue order, file data only up to the last fsync; each crash state is checked against the state invariant, then recovered with up to 3 more runs; non-trivial = crash state differs from both the initial and the final state")
        .set("samples", json!([{"scenario":"S6-both-changed","kill_at":9,"torn":null},{"scenario":"S2-propagate-A-to-B","kill_at":7,"torn":{"mask":1,"mode":"empty"}}]))
        .set("exhaustive", true);
    rep.assume("crash model: rename/unlink/mkdir persist in issue order; data persists only up to the last fsync of that file unless chosen otherwise; a single crash per run; tmpfs stands in for the disk");
    rep.assume("trace-order invariant evaluated on the interposer log of the uninterrupted run: every staged file is fsynced after its last data write and before its rename; the record's rename comes after all data renames");
    finish(ctx, rep, violations);
}
