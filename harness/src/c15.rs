//! C15 — excludes protect, deletes are opt-in, dry runs touch nothing.
//! Combines: pattern semantics at function level (C19's exhaustive glob/is_excluded enumeration),
//! the effect of excludes / --delete / --dry-run at the CLI in all three directions (E5), and
//! `bisync --dry-run` on every transition of the bisync state graph (E2).

use crate::common::*;
use serde_json::{json, Value};
use std::sync::atomic::{AtomicU64, Ordering};

pub fn run(ctx: &Ctx) -> ! {
    if ctx.replay.is_some() {
        let rp = ctx.replay.clone().unwrap_or_default();
        let v: Value = serde_json::from_slice(&std::fs::read(&rp).unwrap_or_default()).unwrap_or(Value::Null);
        if v["detail"].get("state").is_some() {
            crate::e2::run(ctx, "C15");
        }
    }
    let thorough = ctx.tier.is_thorough();
    let evals = AtomicU64::new(0);
    let nontrivial = AtomicU64::new(0);
    let mut violations: Vec<Violation> = Vec::new();
    // (1) pattern semantics
    let mut g = crate::c19::glob_part(if thorough { 5 } else { 4 }, &evals, &nontrivial);
    g.sort_by_key(|x| x.detail["pattern"].as_str().map_or(0, str::len) + x.detail["text"].as_str().map_or(0, str::len));
    violations.extend(g.into_iter().take(5));
    violations.extend(crate::c19::excluded_part(thorough, &evals, &nontrivial).into_iter().take(5));
    let fn_evals = evals.load(Ordering::Relaxed);
    // (2) CLI: excludes, --delete, --dry-run in all three directions
    let cv = crate::e5::c15_cli_part(thorough, &evals, &nontrivial);
    let cli_runs = evals.load(Ordering::Relaxed) - fn_evals;
    let mut per: std::collections::HashMap<String, usize> = Default::default();
    for x in cv {
        let c = per.entry(x.sig.to_string()).or_insert(0);
        *c += 1;
        if *c <= 2 {
            violations.push(x);
        }
    }
    // (3) bisync --dry-run on the whole bisync state graph
    let b = |u0: Vec<&'static str>, e: u8, m: u8| crate::e2::Bound { u0, e, m, state_cap: 2_500_000, decor: vec![] };
    let bounds = if thorough { vec![b(vec!["f"], 5, 2), b(vec!["f"], 3, 3), b(vec!["f", "d/g"], 3, 2), b(vec!["n.t", "n/t"], 3, 2)] } else { vec![b(vec!["f"], 3, 2), b(vec!["f", "d/g"], 2, 1), b(vec!["n.t", "n/t"], 2, 1)] };
    let (mut rep, bv) = crate::e2::explore(ctx, "C15", &bounds, 1);
    violations.extend(bv);
    rep.set("evaluations", evals.load(Ordering::Relaxed))
        .set("distinct_nontrivial", nontrivial.load(Ordering::Relaxed))
        .set("pattern_function_evaluations", fn_evals)
        .set("cli_runs", cli_runs)
        .set("rule", "(1) glob_match / is_excluded enumerated exhaustively against a DP wildcard reference (as in C19); (2) `sync -r` in all three directions on trees whose names are all legal strings of length <= 2 over {a,*,?,.} at top level and in d/, each source-only / destination-only / both-differing, x exclude lists of <= 2 patterns from 12 x --delete: no path matching the reference exclusion predicate is created, modified or removed, nothing is removed without --delete, everything else follows the reference plan; every C04 configuration first with --dry-run: all snapshots identical and the printed send/delete lines equal the diff the following real run produces; (3) every bisync transition of the E2 state graph preceded by `bisync --dry-run`: trees, archive bytes+mtime and $HOME/.copia unchanged, and the printed actions pushed through a reference effect model give exactly the post-state of the real run");
    finish(ctx, rep, violations);
}
