//! C19 — the one-way planner, its pattern matcher and the remote-listing parser equal
//! their set definitions. Also hosts the function-level half of C15 (pattern semantics).

use crate::common::*;
use crate::meta::parse_remote_meta_output;
use crate::plan::{build_plan, glob_match, is_excluded, needs_transfer, FileMeta, MetaMap};
use rayon::prelude::*;
use serde_json::{json, Value};
use std::path::{Path, PathBuf};
use std::sync::atomic::{AtomicU64, Ordering};

// ───────────── references ─────────────

/// Wildcard semantics by dynamic programming: `*` any run (incl. empty), `?` exactly
/// one character, anything else literal — also when the text itself contains `*`/`?`.
pub fn ref_glob(p: &[char], t: &[char]) -> bool {
    let (n, m) = (p.len(), t.len());
    let mut dp = vec![vec![false; m + 1]; n + 1];
    dp[0][0] = true;
    for i in 1..=n {
        if p[i - 1] == '*' {
            dp[i][0] = dp[i - 1][0];
        }
        for j in 1..=m {
            dp[i][j] = match p[i - 1] {
                '*' => dp[i - 1][j] || dp[i][j - 1],
                '?' => dp[i - 1][j - 1],
                c => c == t[j - 1] && dp[i - 1][j - 1],
            };
        }
    }
    dp[n][m]
}

pub fn ref_excluded(rel: &str, pats: &[String]) -> bool {
    pats.iter().any(|pat| {
        let p = pat.trim_end_matches('/');
        if p.is_empty() {
            return false;
        }
        let pc: Vec<char> = p.chars().collect();
        if p.contains('/') {
            ref_glob(&pc, &rel.chars().collect::<Vec<_>>())
        } else {
            rel.split('/').filter(|c| !c.is_empty()).any(|c| ref_glob(&pc, &c.chars().collect::<Vec<_>>()))
        }
    })
}

/// (transfer sorted, skipped, delete sorted)
pub fn ref_plan(src: &[(String, (u64, i64))], dst: &[(String, (u64, i64))], ex: &[String], del: bool) -> (Vec<String>, usize, Vec<String>) {
    let get = |m: &[(String, (u64, i64))], k: &str| m.iter().find(|(p, _)| p == k).map(|(_, v)| *v);
    let mut transfer: Vec<String> = src.iter().filter(|(p, _)| !ref_excluded(p, ex)).filter(|(p, sm)| get(dst, p).map_or(true, |dm| dm != *sm)).map(|(p, _)| p.clone()).collect();
    let skipped = src.iter().filter(|(p, _)| !ref_excluded(p, ex)).count() - transfer.len();
    let mut delete: Vec<String> = if del { dst.iter().filter(|(p, _)| get(src, p).is_none() && !ref_excluded(p, ex)).map(|(p, _)| p.clone()).collect() } else { Vec::new() };
    transfer.sort_by_key(|s| PathBuf::from(s));
    delete.sort_by_key(|s| PathBuf::from(s));
    (transfer, skipped, delete)
}

fn strings_over(alpha: &[char], max: usize) -> Vec<String> {
    let mut out = vec![String::new()];
    let mut level = vec![String::new()];
    for _ in 0..max {
        let mut nl = Vec::new();
        for s in &level {
            for &c in alpha {
                let mut t = s.clone();
                t.push(c);
                nl.push(t);
            }
        }
        out.extend(nl.iter().cloned());
        level = nl;
    }
    out
}

// ───────────── glob_match ─────────────

pub fn glob_part(maxlen: usize, evals: &AtomicU64, nontrivial: &AtomicU64) -> Vec<Violation> {
    // 'é' is a two-byte character: `?` must consume one CHARACTER, not one byte
    let alpha = ['a', 'b', '*', '?', '.', '/', 'é'];
    let strs = strings_over(&alpha, maxlen);
    let cs: Vec<Vec<char>> = strs.iter().map(|s| s.chars().collect()).collect();
    (0..strs.len())
        .into_par_iter()
        .flat_map_iter(|pi| {
            let mut out = Vec::new();
            let p = &strs[pi];
            let pmeta = p.contains('*') || p.contains('?');
            let mut n = 0u64;
            let mut nt = 0u64;
            for (ti, t) in strs.iter().enumerate() {
                n += 1;
                if pmeta || t.contains('*') || t.contains('?') {
                    nt += 1;
                }
                let want = ref_glob(&cs[pi], &cs[ti]);
                let got = match catch(|| glob_match(p, t)) {
                    Ok(g) => g,
                    Err(e) => {
                        out.push(Violation::new("panic", format!("glob_match({p:?},{t:?}) panicked: {e}"), json!({"fn":"glob_match","pattern":p,"text":t})));
                        continue;
                    }
                };
                if got != want && out.len() < 2 {
                    out.push(Violation::new("glob_match", format!("glob_match({p:?}, {t:?}) = {got}, wildcard semantics say {want}"), json!({"fn":"glob_match","pattern":p,"text":t})));
                }
            }
            evals.fetch_add(n, Ordering::Relaxed);
            nontrivial.fetch_add(nt, Ordering::Relaxed);
            out
        })
        .collect()
}

// ───────────── is_excluded ─────────────

pub fn name_universe() -> Vec<String> {
    strings_over(&['a', '*', '?', '.'], 2).into_iter().filter(|s| !s.is_empty() && s != "." && s != "..").collect()
}

pub fn excluded_part(thorough: bool, evals: &AtomicU64, nontrivial: &AtomicU64) -> Vec<Violation> {
    let names = name_universe();
    let mut paths: Vec<String> = names.clone();
    for a in &names {
        for b in &names {
            paths.push(format!("{a}/{b}"));
        }
    }
    if thorough {
        for a in &names {
            for b in &names {
                for c in &names {
                    paths.push(format!("{a}/{b}/{c}"));
                }
            }
        }
    } else {
        for a in names.iter().step_by(3) {
            for b in names.iter().step_by(2) {
                for c in names.iter().step_by(3) {
                    paths.push(format!("{a}/{b}/{c}"));
                }
            }
        }
    }
    let mut pats = strings_over(&['a', 'b', '*', '?', '.', '/'], 3);
    let with_slash: Vec<String> = pats.iter().map(|p| format!("{p}/")).collect();
    pats.extend(with_slash);
    pats.push("a//".into());
    pats.par_iter()
        .flat_map_iter(|pat| {
            let lst = vec![pat.clone()];
            let mut out = Vec::new();
            let mut n = 0u64;
            let mut nt = 0u64;
            for rel in &paths {
                n += 1;
                let want = ref_excluded(rel, &lst);
                if want {
                    nt += 1;
                }
                let got = is_excluded(Path::new(rel), &lst);
                if got != want && out.len() < 2 {
                    out.push(Violation::new("is_excluded", format!("is_excluded({rel:?}, [{pat:?}]) = {got}, definition says {want}"), json!({"fn":"is_excluded","path":rel,"patterns":lst})));
                }
            }
            // two-pattern lists: `any` semantics, with this pattern second
            for first in ["", "zz", "a"] {
                let lst2 = vec![first.to_string(), pat.clone()];
                for rel in paths.iter().step_by(17) {
                    n += 1;
                    let want = ref_excluded(rel, &lst2);
                    let got = is_excluded(Path::new(rel), &lst2);
                    if got != want && out.len() < 2 {
                        out.push(Violation::new("is_excluded", format!("is_excluded({rel:?}, {lst2:?}) = {got}, definition says {want}"), json!({"fn":"is_excluded","path":rel,"patterns":lst2})));
                    }
                }
            }
            evals.fetch_add(n, Ordering::Relaxed);
            nontrivial.fetch_add(nt, Ordering::Relaxed);
            out
        })
        .collect()
}

// ───────────── build_plan ─────────────

const PLAN_PATHS: [&str; 3] = ["a", "b", "d/c"];
/// Further universes whose byte order and component order disagree (a directory next to
/// siblings whose names extend it with a byte below '/').
const PLAN_UNIVERSES: [&[&str]; 3] = [&["a", "b", "d/c"], &["conf/a", "conf.d/b", "conf-x"], &["n.txt", "n/t", "n-a", "n+/u"]];
const PLAN_PATTERNS: [&[&str]; 3] = [&["a", "d", "*", "d/c", "d/*", "?"], &["a", "conf", "conf.d", "conf*", "*/a", "conf?x"], &["n", "n*", "n/*", "t", "?.txt", "n+"]];

pub fn plan_state_u(uni: usize, idx: usize) -> (Vec<(String, (u64, i64))>, Vec<(String, (u64, i64))>) {
    let mut k = idx;
    let mut src = Vec::new();
    let mut dst = Vec::new();
    for p in PLAN_UNIVERSES[uni] {
        if let Some(m) = META_VALS[k % 4] {
            src.push((p.to_string(), m));
        }
        if let Some(m) = META_VALS[(k / 4) % 4] {
            dst.push((p.to_string(), m));
        }
        k /= 16;
    }
    (src, dst)
}
const META_VALS: [Option<(u64, i64)>; 4] = [None, Some((1, 1)), Some((2, 1)), Some((1, 2))];

pub fn plan_state(idx: usize) -> (Vec<(String, (u64, i64))>, Vec<(String, (u64, i64))>) {
    let mut k = idx;
    let mut src = Vec::new();
    let mut dst = Vec::new();
    for p in PLAN_PATHS {
        if let Some(m) = META_VALS[k % 4] {
            src.push((p.to_string(), m));
        }
        if let Some(m) = META_VALS[(k / 4) % 4] {
            dst.push((p.to_string(), m));
        }
        k /= 16;
    }
    (src, dst)
}

fn to_metamap(v: &[(String, (u64, i64))]) -> MetaMap {
    v.iter().map(|(p, (s, m))| (PathBuf::from(p), FileMeta { size: *s, mtime: *m })).collect()
}

fn plan_part(thorough: bool, evals: &AtomicU64, nontrivial: &AtomicU64) -> Vec<Violation> {
    let mut out = Vec::new();
    for uni in 0..PLAN_UNIVERSES.len() {
        if PLAN_UNIVERSES[uni].len() > 3 && !thorough {
            continue;
        }
        out.extend(plan_part_u(uni, evals, nontrivial).into_iter().take(5));
    }
    out
}

fn plan_part_u(uni: usize, evals: &AtomicU64, nontrivial: &AtomicU64) -> Vec<Violation> {
    let pats = PLAN_PATTERNS[uni];
    let mut lists: Vec<Vec<String>> = vec![vec![]];
    for p in pats {
        lists.push(vec![p.to_string()]);
    }
    for p in pats {
        for q in pats {
            lists.push(vec![p.to_string(), q.to_string()]);
        }
    }
    let total = 16usize.pow(PLAN_UNIVERSES[uni].len() as u32);
    (0..total)
        .into_par_iter()
        .flat_map_iter(|idx| {
            let (src, dst) = plan_state_u(uni, idx);
            let (sm, dm) = (to_metamap(&src), to_metamap(&dst));
            let mut out = Vec::new();
            let mut n = 0u64;
            let mut nt = 0u64;
            for ex in &lists {
                for del in [false, true] {
                    n += 1;
                    let (wt, ws, wd) = ref_plan(&src, &dst, ex, del);
                    if !wt.is_empty() || !wd.is_empty() {
                        nt += 1;
                    }
                    let got = build_plan(&sm, &dm, ex, del);
                    let gt: Vec<String> = got.transfer.iter().map(|p| p.to_string_lossy().into_owned()).collect();
                    let gd: Vec<String> = got.delete.iter().map(|p| p.to_string_lossy().into_owned()).collect();
                    if (gt != wt || got.skipped != ws || gd != wd) && out.len() < 2 {
                        out.push(Violation::new("build_plan", format!("build_plan: transfer {gt:?} skipped {} delete {gd:?}; definition: transfer {wt:?} skipped {ws} delete {wd:?} (excludes {ex:?}, delete={del})", got.skipped), json!({"fn":"build_plan","universe":uni,"state":idx,"excludes":ex,"delete":del})));
                    }
                }
            }
            evals.fetch_add(n, Ordering::Relaxed);
            nontrivial.fetch_add(nt, Ordering::Relaxed);
            out
        })
        .collect()
}

fn needs_transfer_part(evals: &AtomicU64) -> Vec<Violation> {
    let sizes = [0u64, 1, 2, u64::MAX];
    let times = [0i64, 1, 2, i64::MAX];
    let mut out = Vec::new();
    for &s in &sizes {
        for &t in &times {
            let src = FileMeta { size: s, mtime: t };
            evals.fetch_add(1, Ordering::Relaxed);
            if !needs_transfer(src, None) {
                out.push(Violation::new("needs_transfer", "absent destination not transferred", json!({"fn":"needs_transfer"})));
            }
            for &s2 in &sizes {
                for &t2 in &times {
                    evals.fetch_add(1, Ordering::Relaxed);
                    let want = s != s2 || t != t2;
                    if needs_transfer(src, Some(FileMeta { size: s2, mtime: t2 })) != want {
                        out.push(Violation::new("needs_transfer", format!("needs_transfer(({s},{t}),({s2},{t2})) != {want}"), json!({"fn":"needs_transfer","src":[s,t],"dst":[s2,t2]})));
                    }
                }
            }
        }
    }
    out
}

// ───────────── parse_remote_meta_output ─────────────

fn listing_part(evals: &AtomicU64, nontrivial: &AtomicU64) -> Vec<Violation> {
    let names = ["plain", "with\ttab", "new\nline", "dots.a.b", ".hidden", "..dots", "sp ace", "üñí-日本", "d/nested", "d/with\ttab/x", "tab\tand\nnl", "a\t1\t2"];
    let sizes = [0u64, 1, 1 << 63, u64::MAX];
    let times: [(&str, i64); 6] = [("0", 0), ("1", 1), ("1.5000000000", 1), ("1700000000.0000000000", 1_700_000_000), ("1700000000.9999999990", 1_700_000_000), ("253402300799.1", 253_402_300_799)];
    let mut recs: Vec<(String, u64, &str, i64)> = Vec::new();
    for n in names {
        for &s in &sizes {
            for (tt, tv) in times {
                recs.push((n.to_string(), s, tt, tv));
            }
        }
    }
    let render = |r: &(String, u64, &str, i64)| -> Vec<u8> { format!("{}\t{}\t./{}\0", r.1, r.2, r.0).into_bytes() };
    let mut out = Vec::new();
    let check = |bytes: &[u8], want: &[(String, u64, i64)], out: &mut Vec<Violation>| {
        evals.fetch_add(1, Ordering::Relaxed);
        let got = match catch(|| parse_remote_meta_output(bytes)) {
            Ok(g) => g,
            Err(e) => {
                out.push(Violation::new("panic", format!("parse_remote_meta_output panicked: {e}"), json!({"fn":"parse_remote_meta_output","listing_hex":hex(bytes)})));
                return;
            }
        };
        let mut w: std::collections::BTreeMap<PathBuf, (u64, i64)> = Default::default();
        for (p, s, t) in want {
            w.insert(PathBuf::from(p), (*s, *t));
        }
        let g: std::collections::BTreeMap<PathBuf, (u64, i64)> = got.iter().map(|(p, m)| (p.clone(), (m.size, m.mtime))).collect();
        if g != w && out.len() < 5 {
            out.push(Violation::new("listing", format!("parse_remote_meta_output: got {g:?}, listing was produced from {w:?}"), json!({"fn":"parse_remote_meta_output","listing_hex":hex(bytes)})));
        }
    };
    for r in &recs {
        nontrivial.fetch_add(1, Ordering::Relaxed);
        check(&render(r), &[(r.0.clone(), r.1, r.3)], &mut out);
    }
    // all ordered pairs of records with distinct names (sub-sampled sizes/times to keep it small)
    let small: Vec<&(String, u64, &str, i64)> = recs.iter().filter(|r| (r.1 == 1 || r.1 == u64::MAX) && (r.2 == "1.5000000000" || r.2 == "1700000000.9999999990")).collect();
    for a in &small {
        for b in &small {
            if a.0 == b.0 {
                continue;
            }
            let mut bytes = render(a);
            bytes.extend(render(b));
            check(&bytes, &[(a.0.clone(), a.1, a.3), (b.0.clone(), b.1, b.3)], &mut out);
        }
    }
    check(b"", &[], &mut out);
    out
}

/// Bind the renderer above to reality: create files with those names and mtimes and run real `find`.
fn real_find_part(evals: &AtomicU64) -> Vec<Violation> {
    let sc = Scratch::new("c19find");
    let root = sc.path("r");
    let _ = std::fs::create_dir_all(&root);
    let names = ["plain", "with\ttab", "new\nline", "dots.a.b", ".hidden", "..dots", "sp ace", "üñí-日本", "d/nested", "d/with\ttab/x", "tab\tand\nnl"];
    let times: [(i64, i64); 6] = [(0, 0), (1, 0), (1, 500_000_000), (1_700_000_000, 0), (1_700_000_000, 999_999_999), (253_402_300_799, 100_000_000)];
    let mut want = Vec::new();
    for (i, n) in names.iter().enumerate() {
        let p = root.join(n);
        if let Some(d) = p.parent() {
            let _ = std::fs::create_dir_all(d);
        }
        let size = i % 3;
        if std::fs::write(&p, vec![b'x'; size]).is_err() {
            machinery_error("cannot create find fixture");
        }
        let (s, ns) = times[i % times.len()];
        set_mtime(&p, s, ns);
        want.push((n.to_string(), size as u64, s));
    }
    let out = std::process::Command::new("find").current_dir(&root).args([".", "-type", "f", "-printf", "%s\\t%T@\\t%p\\0"]).output().unwrap_or_else(|e| machinery_error(format!("find: {e}")));
    evals.fetch_add(1, Ordering::Relaxed);
    let got = parse_remote_meta_output(&out.stdout);
    let g: std::collections::BTreeMap<PathBuf, (u64, i64)> = got.iter().map(|(p, m)| (p.clone(), (m.size, m.mtime))).collect();
    let w: std::collections::BTreeMap<PathBuf, (u64, i64)> = want.iter().map(|(p, s, t)| (PathBuf::from(p), (*s, *t))).collect();
    if g != w {
        return vec![Violation::new("listing_real_find", format!("real `find -printf` output parsed to {g:?}, files are {w:?}"), json!({"fn":"parse_remote_meta_output","real_find":true,"listing_hex":hex(&out.stdout)}))];
    }
    Vec::new()
}

pub fn set_mtime(p: &Path, secs: i64, nsecs: i64) {
    use std::os::unix::ffi::OsStrExt;
    let c = std::ffi::CString::new(p.as_os_str().as_bytes()).unwrap_or_default();
    let ts = [libc::timespec { tv_sec: secs, tv_nsec: nsecs }, libc::timespec { tv_sec: secs, tv_nsec: nsecs }];
    let r = unsafe { libc::utimensat(libc::AT_FDCWD, c.as_ptr(), ts.as_ptr(), libc::AT_SYMLINK_NOFOLLOW) };
    if r != 0 {
        machinery_error(format!("utimensat {}: {}", p.display(), std::io::Error::last_os_error()));
    }
}

// ───────────── CLI binding: sync -r --dry-run prints exactly the plan ─────────────

pub fn materialise_meta_tree(root: &Path, files: &[(String, (u64, i64))]) {
    let _ = std::fs::create_dir_all(root);
    for (p, (size, mtime)) in files {
        let full = root.join(p);
        if let Some(d) = full.parent() {
            let _ = std::fs::create_dir_all(d);
        }
        if std::fs::write(&full, vec![b'k'; *size as usize]).is_err() {
            machinery_error("cannot write fixture file");
        }
        set_mtime(&full, *mtime, 0);
    }
}

fn cli_binding(thorough: bool, evals: &AtomicU64) -> Vec<Violation> {
    let idxs: Vec<usize> = if thorough { (0..4096).collect() } else { (0..4096).step_by(13).collect() };
    idxs.par_iter()
        .flat_map_iter(|&idx| {
            let (src, dst) = plan_state(idx);
            let mut out = Vec::new();
            for del in [false, true] {
                evals.fetch_add(1, Ordering::Relaxed);
                let sc = Scratch::new("c19cli");
                let (rs, rd) = (sc.path("src"), sc.path("dst"));
                materialise_meta_tree(&rs, &src);
                materialise_meta_tree(&rd, &dst);
                let mut cmd = std::process::Command::new(cli_bin());
                cmd.args(["sync", "-r", "--dry-run"]);
                if del {
                    cmd.arg("--delete");
                }
                let o = cmd.arg(&rs).arg(&rd).env("RUST_LOG", "off").env("HOME", &sc.root).output().unwrap_or_else(|e| machinery_error(format!("spawn copia: {e}")));
                let stdout = String::from_utf8_lossy(&o.stdout).into_owned();
                let stderr = String::from_utf8_lossy(&o.stderr).into_owned();
                let (wt, ws, wd) = ref_plan(&src, &dst, &[], del);
                let mut want_lines: Vec<String> = Vec::new();
                let mut want_plan = None;
                if !(src.is_empty() && !del) {
                    for p in &wt {
                        want_lines.push(format!("send   {p}"));
                    }
                    for p in &wd {
                        want_lines.push(format!("delete {p}"));
                    }
                    want_plan = Some(format!("Plan: {} to transfer, {} unchanged (skipped), {} to delete", wt.len(), ws, wd.len()));
                }
                let got_lines: Vec<String> = stdout.lines().filter(|l| l.starts_with("send ") || l.starts_with("delete ")).map(str::to_string).collect();
                let got_plan = stderr.lines().find(|l| l.starts_with("Plan:")).map(str::to_string);
                if o.status.code() != Some(0) || got_lines != want_lines || got_plan != want_plan {
                    out.push(Violation::new("dry_run_binding", format!("sync -r --dry-run (delete={del}) printed {got_lines:?} / {got_plan:?}, definition gives {want_lines:?} / {want_plan:?}; exit {:?}", o.status.code()), json!({"fn":"cli_dry_run","state":idx,"delete":del})));
                }
            }
            out
        })
        .collect()
}

pub fn run(ctx: &Ctx) -> ! {
    let thorough = ctx.tier.is_thorough();
    let evals = AtomicU64::new(0);
    let nontrivial = AtomicU64::new(0);
    if let Some(rp) = &ctx.replay {
        let v: Value = serde_json::from_slice(&std::fs::read(rp).unwrap_or_default()).unwrap_or(Value::Null);
        let d = &v["detail"];
        let mut vs = Vec::new();
        match d["fn"].as_str().unwrap_or("") {
            "glob_match" => {
                let (p, t) = (d["pattern"].as_str().unwrap_or(""), d["text"].as_str().unwrap_or(""));
                let want = ref_glob(&p.chars().collect::<Vec<_>>(), &t.chars().collect::<Vec<_>>());
                let got = glob_match(p, t);
                if got != want {
                    vs.push(Violation::new("glob_match", format!("glob_match({p:?}, {t:?}) = {got}, wildcard semantics say {want}"), d.clone()));
                }
            }
            "is_excluded" => {
                let rel = d["path"].as_str().unwrap_or("");
                let pats: Vec<String> = d["patterns"].as_array().map(|a| a.iter().filter_map(|x| x.as_str().map(str::to_string)).collect()).unwrap_or_default();
                if is_excluded(Path::new(rel), &pats) != ref_excluded(rel, &pats) {
                    vs.push(Violation::new("is_excluded", format!("is_excluded({rel:?},{pats:?}) disagrees with the definition"), d.clone()));
                }
            }
            _ => {
                vs.extend(plan_part(true, &evals, &nontrivial));
                vs.extend(listing_part(&evals, &nontrivial));
                vs.extend(real_find_part(&evals));
                vs.extend(cli_binding(false, &evals));
            }
        }
        let mut rep = Report::new("exploration");
        rep.set("evaluations", 2u64).set("distinct_nontrivial", 2u64).set("rule", "replay").set("samples", json!([d]));
        finish(ctx, rep, vs);
    }
    let mut violations = Vec::new();
    let glob_len = if thorough { 5 } else { 4 };
    let mut v = glob_part(glob_len, &evals, &nontrivial);
    v.sort_by_key(|x| x.detail["pattern"].as_str().map_or(0, str::len) + x.detail["text"].as_str().map_or(0, str::len));
    violations.extend(v.into_iter().take(10));
    let glob_evals = evals.load(Ordering::Relaxed);
    violations.extend(excluded_part(thorough, &evals, &nontrivial).into_iter().take(10));
    violations.extend(plan_part(thorough, &evals, &nontrivial));
    violations.extend(needs_transfer_part(&evals));
    violations.extend(listing_part(&evals, &nontrivial));
    violations.extend(real_find_part(&evals));
    let before = evals.load(Ordering::Relaxed);
    violations.extend(cli_binding(thorough, &evals).into_iter().take(10));
    let cli_runs = evals.load(Ordering::Relaxed) - before;
    let mut rep = Report::new("exploration");
    rep.set("evaluations", evals.load(Ordering::Relaxed))
        .set("distinct_nontrivial", nontrivial.load(Ordering::Relaxed))
        .set("rule", format!("glob_match: every (pattern, text) with both of length <= {glob_len} over {{a,b,*,?,.,/,é}} vs a DP reference; is_excluded: every pattern of length <= 3 (+ trailing-slash variants) x every path of 1..3 components over names of length <= 2 from {{a,*,?,.}}; build_plan: all (src,dst) metadata maps over two 3-path universes (plus a 4-path one in thorough; chosen so byte order and component order of paths disagree) x 43 exclude lists x delete on/off vs a set-comprehension reference; listing parser on rendered and real `find -printf` output; non-trivial = pattern or text contains a metacharacter / path is excluded / plan is non-empty"))
        .set("glob_pairs", glob_evals)
        .set("cli_dry_run_runs", cli_runs)
        .set("samples", json!([
            {"fn":"glob_match","pattern":"*b","text":"*ab","expect":true},
            {"fn":"is_excluded","path":"a/?.","patterns":["?."],"expect":true},
            {"fn":"build_plan","src":{"a":[1,1],"d/c":[2,1]},"dst":{"a":[1,2],"b":[1,1]},"excludes":["d/*"],"delete":true},
            {"fn":"parse_remote_meta_output","record":"1\\t1700000000.9999999990\\t./with\\ttab\\0"}
        ]))
        .set("exhaustive", true);
    rep.assume("pattern/text alphabets and length bounds as stated; remote listings rendered exactly as GNU find's -printf '%s\\t%T@\\t%p\\0' (bound to the real find on tmpfs in the same run)");
    finish(ctx, rep, violations);
}
