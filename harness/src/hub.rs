//! C03 (linearizable CAS, no lost update) and C10 (hub paths only ever hold complete,
//! hash-verified content) on top of the E4 scheduler.

use crate::common::*;
use crate::e4::*;
use serde_json::{json, Value};
use std::collections::BTreeSet;
use std::sync::Mutex;

const C0: &[u8] = b"c0c0";
const X: &[u8] = b"XX";
const Y: &[u8] = b"YYY";
const X2: &[u8] = b"xx2";
const Z: &[u8] = b"Z";

fn programs(with_f: bool) -> Vec<(&'static str, Vec<Op>)> {
    let cur0 = if with_f { Exp::HashOf(C0.to_vec()) } else { Exp::Absent };
    let mut p3 = put("f", cur0.clone(), X);
    if let Op::Put { pieces, .. } = &mut p3 {
        *pieces = 2;
    }
    vec![
        ("P1", vec![put("f", cur0.clone(), X)]),
        ("P2", vec![put("f", cur0.clone(), Y)]),
        ("P3", vec![p3]),
        ("P4", vec![Op::Delete { path: "f".into(), expected: cur0.clone() }]),
        ("P5", vec![Op::Get { path: "f".into() }]),
        ("P6", vec![Op::List]),
        ("P7", vec![put("f", cur0.clone(), X), Op::Get { path: "f".into() }]),
        ("P8", vec![put("g", Exp::Absent, Z)]),
        ("P9", vec![put("f", Exp::HashOf(b"stale-other-bytes".to_vec()), X)]),
        ("P10", vec![put("f", cur0.clone(), X), put("f", Exp::HashOf(X.to_vec()), X2)]),
        ("P11", vec![Op::List, put("f", Exp::Listed, Y)]),
        ("P12", vec![put("g", Exp::Absent, Z), put("f", cur0, Y)]),
    ]
}

fn init_tree(with_f: bool) -> Files {
    let mut f = Files::new();
    if with_f {
        f.insert("f".into(), C0.to_vec());
    }
    f
}

fn outcome(ex: &Exec) -> String {
    let mut s = String::new();
    for o in &ex.ops {
        s.push_str(&format!("{}:{}|", o.client, o.reply.as_ref().map_or("-".to_string(), reply_label)));
    }
    s.push_str(&format!("{:?}", live(&ex.final_tree).iter().map(|(k, v)| (k.clone(), String::from_utf8_lossy(v).into_owned())).collect::<Vec<_>>()));
    s
}

fn c03_judge<'a>(sys: &'a System, name: &'a str) -> impl Fn(&Exec) -> Vec<Violation> + Sync + 'a {
    move |ex: &Exec| {
        let mut v = Vec::new();
        let det = |ex: &Exec| json!({"programs": name, "init": sys.init.iter().map(|(k, b)| (k.clone(), json!(String::from_utf8_lossy(b)))).collect::<serde_json::Map<_, _>>(), "history": history_json(ex)});
        if !ex.reply_errors.is_empty() {
            v.push(Violation::new("reply_stream", format!("[{name}] reply stream broken: {:?}", ex.reply_errors), det(ex)).with("cause", json!("reply_stream")));
            return v;
        }
        if ex.deadlock {
            v.push(Violation::new("deadlock", format!("[{name}] no enabled server while some are unfinished"), det(ex)));
            return v;
        }
        for (i, c) in ex.exit_codes.iter().enumerate() {
            if ex.killed != Some(i) && *c != Some(0) {
                v.push(Violation::new("server_error", format!("[{name}] server {i} ended with status {c:?} / signal {:?}", ex.signals[i]), det(ex)));
                return v;
            }
        }
        if ex.ops.iter().any(|o| o.resp.is_none()) && ex.killed.is_none() {
            v.push(Violation::new("no_reply", format!("[{name}] a request never got a reply"), det(ex)));
            return v;
        }
        if !linearizable(&sys.init, &ex.ops, &ex.final_tree, false) {
            let has_list = ex.ops.iter().any(|o| o.op == Op::List);
            let cause = if has_list && linearizable(&sys.init, &ex.ops, &ex.final_tree, true) { "list_not_atomic" } else { "other" };
            let ops: Vec<String> = ex.ops.iter().map(|o| format!("c{} {} -> {}", o.client, op_label(&o.op), o.reply.as_ref().map_or("(none)".into(), reply_label))).collect();
            v.push(
                Violation::new("not_linearizable", format!("[{name}] replies + final tree match no one-at-a-time order (cause class: {cause}): {ops:?}; final tree {:?}; schedule {:?}", live(&ex.final_tree).iter().map(|(k, b)| (k.clone(), String::from_utf8_lossy(b).into_owned())).collect::<Vec<_>>(), ex.choices), det(ex))
                    .with("cause", json!(cause)),
            );
        }
        v
    }
}

/// C10 instant oracle: every listed/fetchable path holds initial content or the complete content of ONE Put.
fn c10_instant(sys: &System) -> impl Fn(&Files) -> Option<(String, String)> + Sync + '_ {
    move |tree: &Files| {
        for (p, bytes) in tree.iter().filter(|(p, _)| !is_staging(p)) {
            let mut ok = sys.init.get(p) == Some(bytes);
            for prog in &sys.programs {
                for op in prog {
                    if let Op::Put { path, content, declared_hash, declared_len, extra_bytes, .. } = op {
                        let well_formed = declared_hash.map_or(true, |d| d == h(content)) && declared_len.map_or(true, |l| l == content.len() as u64) && extra_bytes.is_empty();
                        // a Put whose streamed bytes (first `len`) hash to the declared hash is verified content
                        let streamed: Vec<u8> = {
                            let mut all = content.clone();
                            all.extend_from_slice(extra_bytes);
                            let l = declared_len.unwrap_or(content.len() as u64) as usize;
                            all.into_iter().take(l).collect()
                        };
                        // verified = the bytes that arrive are exactly as many as declared AND hash to the declared hash
                        let verified = well_formed || (declared_hash.map_or(h(content), |d| d) == h(&streamed) && streamed.len() as u64 == declared_len.unwrap_or(content.len() as u64));
                        if !verified {
                            continue;
                        }
                        let body = if well_formed { content.clone() } else { streamed };
                        let path = &canon_path(path);
                        let cbase = format!("{path}.conflict-{}", short(&h(&body)));
                        let numbered = p.strip_prefix(cbase.as_str()).is_some_and(|r| r.len() > 1 && r.starts_with('-') && r[1..].chars().all(|c| c.is_ascii_digit()));
                        if (p == path || *p == cbase || numbered) && *bytes == body {
                            ok = true;
                        }
                    }
                }
            }
            if !ok {
                return Some(("unverified_content".into(), format!("hub path {p} holds {:?} ({} bytes): neither the initial content nor the complete bytes of one verified write", String::from_utf8_lossy(&bytes[..bytes.len().min(24)]), bytes.len())));
            }
        }
        None
    }
}

fn c10_judge<'a>(sys: &'a System, name: &'a str) -> impl Fn(&Exec) -> Vec<Violation> + Sync + 'a {
    move |ex: &Exec| {
        let mut v = Vec::new();
        let det = json!({"programs": name, "init": sys.init.iter().map(|(k, b)| (k.clone(), json!(String::from_utf8_lossy(b)))).collect::<serde_json::Map<_, _>>(), "history": history_json(ex)});
        if let Some((k, m)) = &ex.instant_violation {
            v.push(Violation::new(k, format!("[{name}] {m}; schedule {:?}", ex.choices), det.clone()));
            return v;
        }
        if !ex.reply_errors.is_empty() {
            v.push(Violation::new("fetch_out_of_step", format!("[{name}] a fetch announced a length that does not match the bytes that followed: {:?}; schedule {:?}", ex.reply_errors, ex.choices), det.clone()).with("op", json!("Get")));
            return v;
        }
        for o in &ex.ops {
            if let Some(Reply::Content { len, hash, bytes }) = &o.reply {
                if *len as usize != bytes.len() || h(bytes) != *hash {
                    v.push(Violation::new("fetch_inconsistent", format!("[{name}] Get reply announces len {len} hash {} but delivers {:?}; schedule {:?}", short(hash), String::from_utf8_lossy(bytes), ex.choices), det.clone()).with("op", json!("Get")));
                    return v;
                }
            }
            // a Get that started after everything else finished and got no complete reply
            if matches!(o.op, Op::Get { .. }) && o.reply.is_none() && ex.killed != Some(o.client) {
                v.push(Violation::new("fetch_out_of_step", format!("[{name}] a Get never received a complete reply (announced length longer than the bytes delivered); schedule {:?}", ex.choices), det.clone()).with("op", json!("Get")));
                return v;
            }
        }
        // rejected writes change nothing: final live tree must be explainable without them (checked by the instant oracle)
        v
    }
}

struct PairSpec {
    name: String,
    sys: System,
}

/// Single-server sessions in which the k-th file-system-mutating libc call of the server FAILS (every k): the
/// replies received and the final tree must still be those of a one-at-a-time execution in which an operation
/// answered with an error had no effect and an operation that got no reply (the server stopped) may or may not
/// have happened. In particular nothing acknowledged may be missing and nothing may be acknowledged as deleted
/// while it is still there.
fn io_fault_sessions(thorough: bool) -> (u64, Vec<Violation>) {
    use crate::wire::Request;
    use rayon::prelude::*;
    use std::io::{Read, Write};
    let progs: Vec<(&str, Files, Vec<Op>)> = vec![
        ("put-get-delete-get-list on {f:c0}", init_tree(true), vec![put("f", Exp::HashOf(C0.to_vec()), X), Op::Get { path: "f".into() }, Op::Delete { path: "f".into(), expected: Exp::HashOf(X.to_vec()) }, Op::Get { path: "f".into() }, Op::List]),
        ("put-new-dir, stale put, delete on {f:c0}", init_tree(true), vec![put("d/g", Exp::Absent, Z), put("f", Exp::HashOf(b"stale".to_vec()), Y), Op::Delete { path: "f".into(), expected: Exp::HashOf(C0.to_vec()) }, Op::List]),
        ("put believing f absent, get, delete believing absent on {f:c0}", init_tree(true), vec![put("f", Exp::Absent, X), Op::Get { path: "f".into() }, Op::Delete { path: "f".into(), expected: Exp::Absent }, Op::Get { path: "f".into() }]),
    ];
    let errnos: Vec<i32> = if thorough { vec![13, 28, 5, -1] } else { vec![13, -1] };
    // (program, errno, read-side calls counted too)
    let jobs: Vec<(usize, i32, bool)> = (0..progs.len()).flat_map(|i| errnos.iter().map(move |e| (i, *e, false)).chain([(i, 13, true)])).collect();
    let res: Vec<(u64, Vec<Violation>)> = jobs
        .par_iter()
        .map(|&(pi, errno, reads)| {
            let (name, init, prog) = &progs[pi];
            let mut runs = 0u64;
            let mut out = Vec::new();
            let session = |k: Option<u64>, runs: &mut u64| -> (Vec<OpRec>, Files, u64) {
                *runs += 1;
                let sc = Scratch::new("c03io");
                let root = sc.path("hub");
                let _ = std::fs::create_dir_all(&root);
                for (p, b) in init {
                    let _ = std::fs::write(root.join(p), b);
                }
                let logp = sc.path("log");
                let mut input = crate::wire::MAGIC.to_vec();
                input.extend(frame_of(&Request::Hello { version: 1 }));
                let mut recs: Vec<OpRec> = Vec::new();
                for (i, op) in prog.iter().enumerate() {
                    let exp = |e: &Exp| match e {
                        Exp::Absent => None,
                        Exp::HashOf(b) => Some(h(b)),
                        Exp::Raw(x) => *x,
                        Exp::Listed => None,
                    };
                    let mut expected = None;
                    match op {
                        Op::List => input.extend(frame_of(&Request::List)),
                        Op::Get { path } => input.extend(frame_of(&Request::Get { path: path.clone() })),
                        Op::Delete { path, expected: e } => {
                            expected = exp(e);
                            input.extend(frame_of(&Request::Delete { path: path.clone(), expected }));
                        }
                        Op::Put { path, expected: e, content, .. } => {
                            expected = exp(e);
                            input.extend(frame_of(&Request::Put { path: path.clone(), expected, len: content.len() as u64, hash: h(content) }));
                            input.extend_from_slice(content);
                        }
                    }
                    recs.push(OpRec { client: 0, op: op.clone(), expected, inv: 2 * i, resp: None, reply: None });
                }
                let mut cmd = std::process::Command::new(cli_bin());
                cmd.arg("serve").arg(&root).env("RUST_LOG", "off").env("LD_PRELOAD", crate::e3::SHIM).env("VSHIM_ROOT", &root).env("VSHIM_LOG", &logp).env("VSHIM_COUNT_READS", if reads { "1" } else { "0" }).stdin(std::process::Stdio::piped()).stdout(std::process::Stdio::piped()).stderr(std::process::Stdio::null());
                match k {
                    Some(k) => {
                        cmd.env("VSHIM_MODE", "inject").env("VSHIM_KILL_AT", u64::MAX.to_string()).env("VSHIM_FAIL_AT", k.to_string()).env("VSHIM_FAIL_ERRNO", errno.to_string());
                    }
                    None => {
                        cmd.env("VSHIM_MODE", "log");
                    }
                }
                let mut child = cmd.spawn().unwrap_or_else(|e| machinery_error(format!("spawn serve: {e}")));
                let mut stdin = child.stdin.take();
                let mut stdout = child.stdout.take();
                let wr = std::thread::spawn(move || {
                    if let Some(mut w) = stdin.take() {
                        let _ = w.write_all(&input);
                    }
                });
                let mut buf = Vec::new();
                if let Some(o) = stdout.as_mut() {
                    let _ = o.read_to_end(&mut buf);
                }
                let _ = wr.join();
                let _ = child.wait();
                let (rs, _) = parse_replies(&buf, 0);
                let mut it = rs.into_iter();
                let _hello = it.next();
                for (i, r) in it.enumerate() {
                    if let (Some(rec), Ok(rep)) = (recs.get_mut(i), r) {
                        rec.resp = Some(2 * i + 1);
                        rec.reply = Some(rep);
                    }
                }
                let n = std::fs::read_to_string(&logp).map(|t| t.lines().count() as u64).unwrap_or(0);
                (recs, snapshot_hub(&root), n)
            };
            let (recs0, tree0, n) = session(None, &mut runs);
            if recs0.iter().any(|r| r.reply.is_none()) || !linearizable(init, &recs0, &tree0, false) {
                return (runs, out); // no clean baseline on this tree: judged by the main exploration
            }
            for k in 1..=n {
                let (recs, tree, _) = session(Some(k), &mut runs);
                ERRORS_ARE_NOOPS.with(|f| f.set(true));
                let ok = linearizable(init, &recs, &tree, false);
                ERRORS_ARE_NOOPS.with(|f| f.set(false));
                if !ok {
                    let ops: Vec<String> = recs.iter().map(|o| format!("{} -> {}", op_label(&o.op), o.reply.as_ref().map_or("(no reply)".into(), reply_label))).collect();
                    out.push(
                        Violation::new("io_error_unexplainable", format!("[{name}] with the server's libc call #{k}{} failing (errno {errno}): replies + final tree match no one-at-a-time execution (error replies = no effect, missing replies = maybe): {ops:?}; final tree {:?}", if reads { " (reads counted)" } else { " (mutating)" }, live(&tree).iter().map(|(p, b)| (p.clone(), String::from_utf8_lossy(b).into_owned())).collect::<Vec<_>>()), json!({"io_fault": {"program": name, "k": k, "errno": errno, "reads": reads}}))
                            .with("cause", json!("io_error")),
                    );
                    if out.len() >= 2 {
                        break;
                    }
                }
            }
            (runs, out)
        })
        .collect();
    (res.iter().map(|r| r.0).sum(), res.into_iter().flat_map(|r| r.1).collect())
}

/// Uploads whose size and byte values sit on the boundaries of the server's staging buffer (256 KiB): all-zero
/// chunks (sparse-file shortcuts), exact multiples, one byte more; single server followed by Get and List.
fn big_content_systems(thorough: bool) -> Vec<PairSpec> {
    let k = 262_144usize;
    let mut shapes: Vec<(&str, Vec<u8>)> = vec![
        ("zeros(256Ki)", vec![0u8; k]),
        ("zeros(512Ki)", vec![0u8; 2 * k]),
        ("zeros(256Ki)+1", { let mut v = vec![0u8; k]; v.push(7); v }),
        ("data(256Ki)+zeros(256Ki)", { let mut v: Vec<u8> = (0..k).map(|i| (i % 251) as u8 + 1).collect(); v.extend(vec![0u8; k]); v }),
    ];
    if thorough {
        shapes.push(("zeros(256Ki)+data(256Ki)", { let mut v = vec![0u8; k]; v.extend((0..k).map(|i| (i % 251) as u8 + 1)); v }));
        shapes.push(("zeros(256Ki-1)", vec![0u8; k - 1]));
        shapes.push(("zeros(768Ki)", vec![0u8; 3 * k]));
        shapes.push(("data(300000)", (0..300_000).map(|i| (i % 253) as u8).collect()));
    }
    shapes
        .into_iter()
        .map(|(n, content)| {
            let mut p = put("f", Exp::Absent, &content);
            if let Op::Put { pieces, .. } = &mut p {
                *pieces = content.len().div_ceil(32_768).max(1);
            }
            PairSpec { name: format!("Put f := {n}; Get; List"), sys: System { init: Files::new(), programs: vec![vec![p, Op::Get { path: "f".into() }, Op::List]], external: vec![], late: vec![] } }
        })
        .collect()
}

/// A server that STARTS while another one is in the middle of a request (its start-up steps are scheduled), and
/// leftovers of an earlier, killed server process that had the same pid (pid reuse): a long staging file under
/// exactly the name the new server will use.
fn late_and_leftover_systems() -> Vec<PairSpec> {
    let progs = programs(true);
    let get = |n: &str| progs.iter().find(|(k, _)| *k == n).map(|(_, p)| p.clone()).unwrap_or_else(|| machinery_error(format!("no program {n}")));
    let mut v = vec![
        PairSpec { name: "P3||late P8 on {f:c0}".into(), sys: System { init: init_tree(true), programs: vec![get("P3"), get("P8")], external: vec![], late: vec![1] } },
        PairSpec { name: "P9||late P5 on {f:c0}".into(), sys: System { init: init_tree(true), programs: vec![get("P9"), get("P5")], external: vec![], late: vec![1] } },
        PairSpec { name: "late P1||late P2 on {f:c0}".into(), sys: System { init: init_tree(true), programs: vec![get("P1"), get("P2")], external: vec![], late: vec![0, 1] } },
    ];
    let stale: Vec<u8> = b"leftover-of-a-killed-server-with-the-same-pid".to_vec();
    for (name, prog) in [("P1", get("P1")), ("P9", get("P9")), ("P10", get("P10"))] {
        let mut init = init_tree(true);
        init.insert("f.<pid0>.copia-tmp".into(), stale.clone());
        v.push(PairSpec { name: format!("{name}||P5 on {{f:c0}} + leftover f.<pid0>.copia-tmp"), sys: System { init, programs: vec![prog, get("P5")], external: vec![], late: vec![] } });
    }
    v
}

/// Two clients naming the SAME file with different spellings of its path (`f`, `./f`, `.//f`; `d/x`, `d//x`, `d/./x`).
fn alias_systems() -> Vec<PairSpec> {
    let mut v = Vec::new();
    for (a, b) in [("f", "./f"), ("./f", ".//f")] {
        let cur = Exp::HashOf(C0.to_vec());
        v.push(PairSpec { name: format!("Put({a}) || Put({b}) on {{f:c0}}"), sys: System { init: init_tree(true), programs: vec![vec![put(a, cur.clone(), X)], vec![put(b, cur.clone(), Y)]], external: vec![], late: vec![] } });
    }
    let mut init = Files::new();
    init.insert("d/x".into(), b"dx".to_vec());
    let cur = Exp::HashOf(b"dx".to_vec());
    v.push(PairSpec { name: "Put(d/x) || Put(d//x) on {d/x}".into(), sys: System { init: init.clone(), programs: vec![vec![put("d/x", cur.clone(), X)], vec![put("d//x", cur.clone(), Y)]], external: vec![], late: vec![] } });
    v.push(PairSpec { name: "Put(d/./x) || Delete(d/x) on {d/x}".into(), sys: System { init, programs: vec![vec![put("d/./x", cur.clone(), X)], vec![Op::Delete { path: "d/x".into(), expected: cur }]], external: vec![], late: vec![] } });
    v
}

/// A stale write whose natural conflict-copy name already holds OTHER content (somebody committed to that very
/// path): neither content may vanish.
fn occupied_systems() -> Vec<PairSpec> {
    let cn = format!("f.conflict-{}", short(&h(Z)));
    let mut init = init_tree(true);
    init.insert(cn.clone(), b"other content committed to this very path".to_vec());
    let o1 = vec![put("f", Exp::HashOf(b"stale".to_vec()), Z), Op::Get { path: cn.clone() }];
    let o2 = vec![put("f", Exp::HashOf(b"stale".to_vec()), Z), put("f", Exp::HashOf(b"stale".to_vec()), Z), Op::Get { path: cn }];
    let cn2 = format!("f.conflict-{}", short(&h(Z)));
    let racing = vec![put(&cn2, Exp::Absent, Y)];
    vec![
        // somebody writes to the very name a concurrent stale write is about to use for its conflict-copy
        PairSpec { name: "stale Put(f) || Put(its conflict name, expected=absent) on {f:c0}".into(), sys: System { init: init_tree(true), programs: vec![vec![put("f", Exp::HashOf(b"stale".to_vec()), Z)], racing], external: vec![], late: vec![] } },
        PairSpec { name: "stale Put whose conflict name is occupied; Get(name)".into(), sys: System { init: init.clone(), programs: vec![o1.clone()], external: vec![], late: vec![] } },
        PairSpec { name: "two stale Puts whose conflict name is occupied; Get(name)".into(), sys: System { init: init.clone(), programs: vec![o2], external: vec![], late: vec![] } },
        PairSpec { name: "stale Put (occupied conflict name) || Get f".into(), sys: System { init, programs: vec![o1, vec![Op::Get { path: "f".into() }]], external: vec![], late: vec![] } },
    ]
}

/// Requests that name a path which is a DIRECTORY on the hub (a file lives beneath it).
fn dir_systems() -> Vec<PairSpec> {
    let mut init = Files::new();
    init.insert("d/x".into(), b"dx".to_vec());
    let d1 = vec![put("d", Exp::Absent, X), Op::Get { path: "d".into() }, Op::List];
    let d2 = vec![put("d", Exp::Absent, b"a-longer-first-upload"), put("d", Exp::HashOf(b"stale".to_vec()), Z), Op::List];
    let d3 = vec![Op::Delete { path: "d".into(), expected: Exp::Absent }, Op::Get { path: "d/x".into() }];
    let other = vec![put("d/y", Exp::Absent, Y)];
    vec![
        PairSpec { name: "D1 alone on {d/x}".into(), sys: System { init: init.clone(), programs: vec![d1.clone()], external: vec![], late: vec![] } },
        PairSpec { name: "D2 alone on {d/x}".into(), sys: System { init: init.clone(), programs: vec![d2.clone()], external: vec![], late: vec![] } },
        PairSpec { name: "D3 alone on {d/x}".into(), sys: System { init: init.clone(), programs: vec![d3], external: vec![], late: vec![] } },
        PairSpec { name: "D1||Put(d/y) on {d/x}".into(), sys: System { init: init.clone(), programs: vec![d1, other.clone()], external: vec![], late: vec![] } },
        PairSpec { name: "D2||Put(d/y) on {d/x}".into(), sys: System { init, programs: vec![d2, other], external: vec![], late: vec![] } },
    ]
}

fn pair_systems(names: &[(&str, &str)], inits: &[bool]) -> Vec<PairSpec> {
    let mut out = Vec::new();
    for &wf in inits {
        let progs = programs(wf);
        let get = |n: &str| progs.iter().find(|(k, _)| *k == n).map(|(_, p)| p.clone()).unwrap_or_else(|| machinery_error(format!("no program {n}")));
        for (a, b) in names {
            out.push(PairSpec { name: format!("{a}||{b} on {}", if wf { "{f:c0}" } else { "{}" }), sys: System { init: init_tree(wf), programs: vec![get(a), get(b)], external: vec![], late: vec![] } });
        }
    }
    out
}

fn all_pairs() -> Vec<(&'static str, &'static str)> {
    let names = ["P1", "P2", "P3", "P4", "P5", "P6", "P7", "P8", "P9", "P10", "P11", "P12"];
    let mut v = Vec::new();
    for i in 0..names.len() {
        for j in i..names.len() {
            v.push((names[i], names[j]));
        }
    }
    v
}

fn envs(n: usize) -> Vec<Mutex<WorkerEnv>> {
    (0..n).map(|i| Mutex::new(WorkerEnv::new(&format!("e4w{i}")))).collect()
}

struct Totals {
    schedules: u64,
    steps: u64,
    per_pair: Vec<Value>,
    single_outcome_pairs: Vec<String>,
    states: BTreeSet<String>,
    sys_states: u64,
}

pub fn run(ctx: &Ctx, which: &str) -> ! {
    let thorough = ctx.tier.is_thorough();
    let envs = envs(16);
    EXPLORE_BUDGET_MS.store(if thorough { 900_000 } else { 60_000 }, std::sync::atomic::Ordering::Relaxed);
    let mut violations: Vec<Violation> = Vec::new();
    let mut tot = Totals { schedules: 0, steps: 0, per_pair: Vec::new(), single_outcome_pairs: Vec::new(), states: BTreeSet::new(), sys_states: 0 };
    let mut sample: Option<Value> = None;
    let mut io_runs = 0u64;

    if let Some(rp) = &ctx.replay {
        let v: Value = serde_json::from_slice(&std::fs::read(rp).unwrap_or_default()).unwrap_or(Value::Null);
        if v["detail"]["io_fault"].is_object() {
            let (runs, vs) = io_fault_sessions(true);
            let mut rep = Report::new("model_checking");
            rep.set("states", runs).set("transitions", runs).set("traces_validated_against_impl", runs).set("samples", json!([v["detail"]]));
            finish(ctx, rep, vs);
        }
        let name = v["detail"]["programs"].as_str().unwrap_or("").to_string();
        let sched: Vec<u8> = v["detail"]["history"]["schedule"].as_array().map(|a| a.iter().filter_map(|x| x.as_u64().map(|n| n as u8)).collect()).unwrap_or_default();
        let mut specs = pair_systems(&all_pairs(), &[false, true]);
        specs.extend(malformed_systems());
        specs.extend(triple_systems());
        specs.extend(dir_systems());
        specs.extend(late_and_leftover_systems());
        specs.extend(occupied_systems());
        specs.extend(alias_systems());
        specs.extend(big_content_systems(true));
        let Some(spec) = specs.into_iter().find(|s| s.name == name) else { machinery_error(format!("unknown program pair {name}")) };
        let env = envs[0].lock().unwrap_or_else(|e| e.into_inner());
        let inst = c10_instant(&spec.sys);
        let run1 = run_schedule(&env, &spec.sys, &RunOpts { knobs: Knobs::default(), prefix: &sched, allow_kill: sched.iter().any(|c| *c >= 100), instant: Some(&inst) });
        let run2 = run_schedule(&env, &spec.sys, &RunOpts { knobs: Knobs::default(), prefix: &sched, allow_kill: sched.iter().any(|c| *c >= 100), instant: Some(&inst) });
        if outcome(&run1) != outcome(&run2) || run1.labels != run2.labels {
            machinery_error("replaying the same schedule twice gave different observations");
        }
        let vs = if which == "C03" { c03_judge(&spec.sys, &spec.name)(&run1) } else { c10_judge(&spec.sys, &spec.name)(&run1) };
        let mut rep = Report::new("model_checking");
        rep.set("states", run1.steps as u64).set("transitions", run1.steps as u64).set("traces_validated_against_impl", 2u64).set("samples", json!([history_json(&run1)]));
        drop(env);
        finish(ctx, rep, vs);
    }

    // determinism self-check: one fixed non-default schedule, twice
    {
        let spec = &pair_systems(&[("P1", "P2")], &[true])[0];
        let env = envs[0].lock().unwrap_or_else(|e| e.into_inner());
        let base = run_schedule(&env, &spec.sys, &RunOpts { knobs: Knobs::default(), prefix: &[], allow_kill: false, instant: None });
        let mut pre = base.choices[..base.points.len().min(6)].to_vec();
        if let Some(i) = base.points.iter().position(|p| p.enabled.len() > 1) {
            pre = base.choices[..i].to_vec();
            pre.push(1);
        }
        let a = run_schedule(&env, &spec.sys, &RunOpts { knobs: Knobs::default(), prefix: &pre, allow_kill: false, instant: None });
        let b = run_schedule(&env, &spec.sys, &RunOpts { knobs: Knobs::default(), prefix: &pre, allow_kill: false, instant: None });
        if a.labels != b.labels || outcome(&a) != outcome(&b) {
            machinery_error(format!("scheduler is not deterministic: same schedule, different observations\n{:?}\n{:?}", a.labels, b.labels));
        }
    }

    let quick_pairs = [("P1", "P2"), ("P1", "P3"), ("P1", "P4"), ("P1", "P5"), ("P2", "P6"), ("P3", "P9"), ("P6", "P12"), ("P5", "P10")];
    let specs: Vec<PairSpec> = if thorough { pair_systems(&all_pairs(), &[false, true]) } else { pair_systems(&quick_pairs, &[false, true]) };
    let bound = 2u32;
    let mut run_spec = |spec: &PairSpec, bound: u32, kill: bool, tot: &mut Totals, violations: &mut Vec<Violation>, sample: &mut Option<Value>| {
        let inst = c10_instant(&spec.sys);
        let j03 = c03_judge(&spec.sys, &spec.name);
        let j10 = c10_judge(&spec.sys, &spec.name);
        let judge: &(dyn Fn(&Exec) -> Vec<Violation> + Sync) = if which == "C03" { &j03 } else { &j10 };
        let instant: Option<&(dyn Fn(&Files) -> Option<(String, String)> + Sync)> = if which == "C10" { Some(&inst) } else { None };
        let cap = if thorough { 200_000 } else { 40_000 };
        let out = explore(&envs, &spec.sys, bound, kill, instant, judge, &outcome, cap);
        tot.schedules += out.schedules;
        tot.steps += out.steps;
        tot.sys_states += out.distinct_states;
        for o in &out.outcomes {
            tot.states.insert(format!("{}#{o}", spec.name));
        }
        tot.per_pair.push(json!({"programs": spec.name, "preemption_bound": bound, "kill": kill, "schedules": out.schedules, "distinct_outcomes": out.outcomes.len(), "distinct_system_states": out.distinct_states, "max_points": out.max_points, "capped": out.stopped_early}));
        if out.outcomes.len() == 1 && !kill {
            tot.single_outcome_pairs.push(spec.name.clone());
        }
        if sample.is_none() {
            *sample = Some(json!({"programs": spec.name, "one_of_the_outcomes": out.outcomes.iter().next()}));
        }
        // shortest schedules first, a few per signature
        let mut vs = out.violations;
        vs.sort_by_key(|v| (v.detail["history"]["schedule"].as_array().map_or(0, |a| a.iter().filter(|c| c.as_u64() != Some(0)).count()), v.detail["history"]["schedule"].as_array().map_or(0, Vec::len)));
        let mut per: std::collections::HashMap<String, usize> = Default::default();
        for x in vs {
            let c = per.entry(x.sig.to_string()).or_insert(0);
            *c += 1;
            if *c <= 1 {
                violations.push(x);
            }
        }
    };
    for spec in &specs {
        run_spec(spec, bound, false, &mut tot, &mut violations, &mut sample);
    }
    if which == "C03" {
        let (runs, vs) = io_fault_sessions(thorough);
        tot.schedules += runs;
        violations.extend(vs);
        io_runs = runs;
    }
    // requests whose path names a directory of the hub
    for spec in dir_systems() {
        run_spec(&spec, if thorough { 2 } else { 1 }, false, &mut tot, &mut violations, &mut sample);
    }
    for spec in late_and_leftover_systems() {
        // (the pid-named leftovers are C10's business; C03 runs them only in the thorough tier)
        if which == "C03" && !thorough && spec.name.contains("leftover") {
            continue;
        }
        run_spec(&spec, 2, false, &mut tot, &mut violations, &mut sample);
    }
    for (i, spec) in alias_systems().into_iter().enumerate() {
        run_spec(&spec, if thorough || i == 0 { 2 } else { 1 }, false, &mut tot, &mut violations, &mut sample);
    }
    for (i, spec) in occupied_systems().into_iter().enumerate() {
        run_spec(&spec, if i == 0 { 2 } else { 1 }, which == "C10" && i != 0, &mut tot, &mut violations, &mut sample);
    }
    // three servers (a lock holder, a waiter queued behind it, and a late arrival) at bound 2
    for spec in triple_systems().into_iter().take(if thorough { 4 } else if which == "C03" && std::env::var("VH_NO_TRIPLE").is_err() { 1 } else { 0 }) {
        run_spec(&spec, 2, false, &mut tot, &mut violations, &mut sample);
    }
    if thorough {
        // bound 3 on the focused pairs; three servers at bound 1
        for spec in pair_systems(&quick_pairs, &[false, true]).into_iter().chain(pair_systems(&[("P2", "P10"), ("P4", "P10"), ("P7", "P2"), ("P11", "P1")], &[true])) {
            run_spec(&spec, 3, false, &mut tot, &mut violations, &mut sample);
        }

    }
    if which == "C10" {
        for spec in big_content_systems(thorough) {
            run_spec(&spec, 0, false, &mut tot, &mut violations, &mut sample);
        }
        // (b) crash sub-exploration: one kill at any point, preemption bound 1 around it
        let kill_pairs: Vec<(&str, &str)> = if thorough { vec![("P1", "P2"), ("P1", "P3"), ("P1", "P4"), ("P1", "P5"), ("P3", "P9"), ("P10", "P5"), ("P2", "P8")] } else { vec![("P1", "P2"), ("P3", "P5")] };
        for spec in pair_systems(&kill_pairs, if thorough { &[false, true] } else { &[true] }) {
            run_spec(&spec, 1, true, &mut tot, &mut violations, &mut sample);
        }
        // (c) malformed writes, single server + a reader
        for spec in malformed_systems() {
            run_spec(&spec, 1, false, &mut tot, &mut violations, &mut sample);
        }
    }
    let mut rep = Report::new("model_checking");
    rep.set("states", tot.sys_states)
        .set("distinct_outcomes", tot.states.len() as u64)
        .set("transitions", tot.steps)
        .set("schedules", tot.schedules)
        .set("io_fault_sessions", io_runs)
        .set("traces_validated_against_impl", tot.schedules)
        .set("per_program_pair", Value::Array(tot.per_pair))
        .set("pairs_with_a_single_outcome", json!(tot.single_outcome_pairs))
        .set("samples", json!([sample.unwrap_or(Value::Null)]))
        .set("explanation", "stateless exploration (CHESS-style iterative preemption bounding) of REAL `copia serve` processes: an LD_PRELOAD interposer parks each server before every libc call that touches the hub tree, reads its stdin or takes the commit lock, and the explorer decides who moves; every schedule re-executes fresh processes on a fresh hub tree. `states` sums, over the program systems, the distinct (hub tree incl. staging files, per-server progress, lock holder) system states seen after any step; `distinct_outcomes` counts distinct (program pair, replies + final tree) results; `transitions` counts scheduling steps executed; every schedule is the implementation itself.");
    rep.assume("scheduling points = libc calls under the hub root (open/read/write/fsync/stat/rename/unlink/flock/readdir …) + reads of stdin; memory-only steps between them are deterministic per process");
    rep.assume("2 servers at preemption bound 2 (quick); thorough adds all 78 program pairs, bound 3 on focused pairs and 3 servers at bound 1; clients send the next request only after the previous reply, content may arrive in several pieces");
    finish(ctx, rep, violations);
}

fn malformed_systems() -> Vec<PairSpec> {
    let mut out = Vec::new();
    for wf in [false, true] {
        // the malformed write carries either the CURRENT hash as `expected` or a STALE one
        for stale in [false, true] {
            let cur0 = if stale { Exp::HashOf(b"stale-other-bytes".to_vec()) } else if wf { Exp::HashOf(C0.to_vec()) } else { Exp::Absent };
            let mk = |f: &dyn Fn(&mut Op)| {
                let mut p = put("f", cur0.clone(), X);
                f(&mut p);
                p
            };
            let bad_hash = mk(&|p| {
                if let Op::Put { declared_hash, .. } = p {
                    *declared_hash = Some(h(b"something else"));
                }
            });
            let short_content = mk(&|p| {
                if let Op::Put { declared_len, .. } = p {
                    *declared_len = Some(10);
                }
            });
            let excess = mk(&|p| {
                if let Op::Put { extra_bytes, .. } = p {
                    *extra_bytes = b"TRAILING".to_vec();
                }
            });
            let zero_len = mk(&|p| {
                if let Op::Put { declared_len, declared_hash, .. } = p {
                    *declared_len = Some(0);
                    *declared_hash = Some(h(b""));
                }
            });
            for (n, bad) in [("bad-hash", bad_hash), ("short-content", short_content), ("excess-length", excess), ("zero-len-with-bytes", zero_len)] {
                out.push(PairSpec { name: format!("malformed {n}{} || Get,List on {}", if stale { " (stale expected)" } else { "" }, if wf { "{f:c0}" } else { "{}" }), sys: System { init: init_tree(wf), programs: vec![vec![bad], vec![Op::Get { path: "f".into() }, Op::List]], external: vec![], late: vec![] } });
            }
        }
    }
    out
}

fn triple_systems() -> Vec<PairSpec> {
    let progs = programs(true);
    let get = |n: &str| progs.iter().find(|(k, _)| *k == n).map(|(_, p)| p.clone()).unwrap_or_default();
    vec![
        // a holder that does not touch f, a waiter queued behind it, and a late arrival: both followers expect c0
        PairSpec { name: "P8||P1||P2 on {f:c0}".into(), sys: System { init: init_tree(true), programs: vec![get("P8"), get("P1"), get("P2")], external: vec![], late: vec![] } },
        PairSpec { name: "P1||P2||P4 on {f:c0}".into(), sys: System { init: init_tree(true), programs: vec![get("P1"), get("P2"), get("P4")], external: vec![], late: vec![] } },
        PairSpec { name: "P1||P2||P5 on {f:c0}".into(), sys: System { init: init_tree(true), programs: vec![get("P1"), get("P2"), get("P5")], external: vec![], late: vec![] } },
        PairSpec { name: "P3||P9||P6 on {f:c0}".into(), sys: System { init: init_tree(true), programs: vec![get("P3"), get("P9"), get("P6")], external: vec![], late: vec![] } },
    ]
}
