//! C13 — hub-sync lands the local tree on the hub and skips what is already there.
//! (a) all sequences of <= 3 sequential runs x hub initial states x both target forms;
//! (b) two REAL `copia hub-sync` clients whose `serve` children are interleaved by the E4 scheduler.

use crate::common::*;
use crate::e4::*;
use rayon::prelude::*;
use serde_json::{json, Value};
use std::collections::BTreeSet;
use std::path::Path;
use std::sync::atomic::{AtomicU64, Ordering};
use std::sync::Mutex;

const X: &[u8] = b"XX-content";
const Y: &[u8] = b"Y-content-other";
const Z: &[u8] = b"Z";
const C0: &[u8] = b"c0-initial";

fn tree(name: &str) -> Files {
    let mut f = Files::new();
    match name {
        "fX" => {
            f.insert("f".into(), X.to_vec());
        }
        "fY" => {
            f.insert("f".into(), Y.to_vec());
        }
        "fX+dgZ" => {
            f.insert("f".into(), X.to_vec());
            f.insert("d/g".into(), Z.to_vec());
        }
        "fX+zW" => {
            f.insert("f".into(), X.to_vec());
            f.insert("z/h".into(), b"W-later-path".to_vec());
        }
        "order" => {
            // a directory next to a sibling whose name extends it with a byte below '/'
            f.insert("lib/a".into(), X.to_vec());
            f.insert("lib.txt".into(), Y.to_vec());
        }
        "dotcopia" => {
            // top-level names that merely BEGIN with ".copia" are ordinary files
            f.insert(".copiaignore".into(), Y.to_vec());
            f.insert(".copia-notes/x".into(), Z.to_vec());
            f.insert("f".into(), X.to_vec());
        }
        "hub-f" => {
            f.insert("f".into(), C0.to_vec());
        }
        "hub-h" => {
            f.insert("h".into(), C0.to_vec());
        }
        _ => {}
    }
    f
}

fn write_tree(root: &Path, t: &Files) {
    let _ = std::fs::remove_dir_all(root);
    let _ = std::fs::create_dir_all(root);
    for (p, b) in t {
        let full = root.join(p);
        if let Some(d) = full.parent() {
            let _ = std::fs::create_dir_all(d);
        }
        let _ = std::fs::write(&full, b);
    }
}

struct RunRes {
    code: Option<i32>,
    stdout: String,
    stderr: String,
}

fn hub_sync(sc: &Scratch, local: &Path, hub: &Path, ssh: bool) -> RunRes {
    let mut c = std::process::Command::new(cli_bin());
    let target = if ssh { format!("rh:{}", hub.display()) } else { hub.to_string_lossy().into_owned() };
    c.arg("hub-sync").arg(local).arg(target).env("RUST_LOG", "off").env("TOKIO_WORKER_THREADS", "1").env("HOME", sc.path("home"));
    if ssh {
        let _ = std::fs::create_dir_all(sc.path("rhome"));
        c.env("PATH", format!("{}:{}", crate::e3::STANDIN_DIR, std::env::var("PATH").unwrap_or_default())).env("VSTANDIN_HOME", sc.path("rhome")).env("VSTANDIN_BIN", cli_bin().parent().map(|p| p.to_path_buf()).unwrap_or_default());
    }
    let (code, out, err) = output_with_timeout(&mut c, 60);
    RunRes { code, stdout: String::from_utf8_lossy(&out).into_owned(), stderr: String::from_utf8_lossy(&err).into_owned() }
}

fn sent_count(stdout: &str) -> Option<(u64, u64, u64)> {
    let l = stdout.lines().find(|l| l.starts_with("Hub push complete:"))?;
    let nums: Vec<u64> = l.split(|c: char| !c.is_ascii_digit()).filter(|s| !s.is_empty()).filter_map(|s| s.parse().ok()).collect();
    (nums.len() >= 3).then(|| (nums[0], nums[1], nums[2]))
}

/// Postcondition of ONE completed hub-sync run (sequential setting: nobody else writes).
fn post_ok(local: &Files, hub_before: &Files, hub_after: &Files, r: &RunRes) -> Option<(String, String)> {
    let after = live(hub_after);
    if r.code == Some(0) {
        for (p, b) in local {
            if after.get(p) != Some(b) {
                return Some(("missing_on_hub".into(), format!("exit 0 but hub path {p} holds {:?}, local has {} bytes", after.get(p).map(|x| String::from_utf8_lossy(x).into_owned()), b.len())));
            }
        }
        for (p, b) in hub_before {
            if !local.contains_key(p) && after.get(p) != Some(b) {
                return Some(("other_path_touched".into(), format!("exit 0 but hub path {p} (not named by the local tree) changed")));
            }
        }
        for p in after.keys() {
            if !local.contains_key(p) && !hub_before.contains_key(p) {
                return Some(("other_path_touched".into(), format!("exit 0 but a new hub path {p} appeared that the local tree does not name")));
            }
        }
        None
    } else {
        // non-zero: every local file must still be retrievable (path or conflict-copy); nothing else lost
        for (p, b) in local {
            let ok = after.get(p) == Some(b) || after.get(&format!("{p}.conflict-{}", short(&h(b)))) == Some(b);
            if !ok && r.stderr.contains("CAS conflict") {
                return Some(("local_not_retrievable".into(), format!("non-zero exit (CAS conflict) and local {p} is neither at its path nor in a conflict-copy")));
            }
        }
        for (p, b) in hub_before {
            if after.get(p) != Some(b) && !local.contains_key(p) {
                return Some(("other_path_touched".into(), format!("non-zero exit and hub path {p} changed")));
            }
        }
        None
    }
}

/// The hub's k-th file-system-mutating libc call FAILS (every k) while one client runs hub-sync: an exit status 0
/// must still mean that every local file is on the hub; a failure must not have touched other paths.
fn io_fault_part(thorough: bool, evals: &AtomicU64) -> Vec<Violation> {
    let errnos: Vec<i32> = if thorough { vec![13, 28, 5, -1] } else { vec![13, -1] };
    let cases: Vec<(&str, &str)> = vec![("fX+dgZ", "hub-f"), ("fY", "hub-h")];
    // (local, hub, errno, faults on the CLIENT's reads of its local tree instead of the hub's calls)
    let mut jobs: Vec<(&str, &str, i32, bool)> = cases.iter().flat_map(|(l, hb)| errnos.iter().map(move |e| (*l, *hb, *e, false))).collect();
    for (l, hb) in &cases {
        jobs.push((*l, *hb, 13, true));
    }
    jobs.par_iter()
        .flat_map_iter(|&(lname, hb, errno, client_side)| {
            let mut out = Vec::new();
            let run = |k: Option<u64>| -> (Files, Files, Files, RunRes, u64) {
                let sc = Scratch::new("c13io");
                let hub = sc.path("hub");
                write_tree(&hub, &tree(hb));
                let local = sc.path("local");
                let lt = tree(lname);
                write_tree(&local, &lt);
                let before = live(&snapshot_hub(&hub));
                let logp = sc.path("shim.log");
                let mut c = std::process::Command::new(cli_bin());
                c.arg("hub-sync").arg(&local).arg(&hub).env("RUST_LOG", "off").env("TOKIO_WORKER_THREADS", "1").env("HOME", sc.path("home")).env("LD_PRELOAD", crate::e3::SHIM).env("VSHIM_ROOT", if client_side { &local } else { &hub }).env("VSHIM_COUNT_READS", if client_side { "1" } else { "0" }).env("VSHIM_LOG", &logp);
                match k {
                    Some(k) => {
                        c.env("VSHIM_MODE", "inject").env("VSHIM_KILL_AT", u64::MAX.to_string()).env("VSHIM_FAIL_AT", k.to_string()).env("VSHIM_FAIL_ERRNO", errno.to_string());
                    }
                    None => {
                        c.env("VSHIM_MODE", "log");
                    }
                }
                let (code, o, e) = output_with_timeout(&mut c, 60);
                evals.fetch_add(1, Ordering::Relaxed);
                let n = std::fs::read_to_string(&logp).map(|t| t.lines().count() as u64).unwrap_or(0);
                (lt, before, snapshot_hub(&hub), RunRes { code, stdout: String::from_utf8_lossy(&o).into_owned(), stderr: String::from_utf8_lossy(&e).into_owned() }, n)
            };
            let (lt0, b0, a0, r0, n) = run(None);
            if r0.code != Some(0) || post_ok(&lt0, &b0, &a0, &r0).is_some() || n == 0 {
                return out; // no clean baseline here: the sequential part judges the fault-free behaviour
            }
            for k in 1..=n {
                let (lt, before, after, r, _) = run(Some(k));
                if let Some((kind, m)) = post_ok(&lt, &before, &after, &r) {
                    out.push(Violation::new(&kind, format!("hub {hb}, local {lname}, {} libc call #{k} failing with errno {errno}: {m}; stdout: {}; stderr: {}", if client_side { "the client's (reads of the local tree counted)" } else { "the hub's mutating" }, r.stdout.lines().last().unwrap_or(""), r.stderr.lines().last().unwrap_or("")), json!({"part":"io_fault","hub":hb,"local":lname,"k":k,"errno":errno,"client_side":client_side})).with("cause", json!("io_error")));
                    if out.len() >= 2 {
                        break;
                    }
                }
            }
            out
        })
        .collect()
}

fn sequential_part(thorough: bool, evals: &AtomicU64, nontrivial: &AtomicU64) -> Vec<Violation> {
    let locals = ["fX", "fY", "fX+dgZ", "empty", "dotcopia", "order"];
    let hubs = ["empty", "hub-f", "hub-h"];
    let mut seqs: Vec<Vec<usize>> = Vec::new();
    let maxlen = if thorough { 3 } else { 2 };
    for len in 1..=maxlen {
        for idx in 0..locals.len().pow(len as u32) {
            let mut k = idx;
            seqs.push((0..len).map(|_| { let x = k % locals.len(); k /= locals.len(); x }).collect());
        }
    }
    let mut jobs = Vec::new();
    for hb in hubs {
        for ssh in [false, true] {
            for s in &seqs {
                jobs.push((hb, ssh, s.clone()));
            }
        }
    }
    jobs.par_iter()
        .filter_map(|(hb, ssh, seq)| {
            let sc = Scratch::new("c13s");
            // over SSH the root may itself contain a colon (host:root splits at the FIRST colon)
            let hub = if *ssh { sc.path("hub:v2") } else { sc.path("hub") };
            write_tree(&hub, &tree(hb));
            let names: Vec<&str> = seq.iter().map(|&i| locals[i]).collect();
            for (step, &li) in seq.iter().enumerate() {
                let lt = tree(locals[li]);
                // client k has its own directory; alternate clients
                let local = sc.path(&format!("local{}", step % 2));
                write_tree(&local, &lt);
                let before = live(&snapshot_hub(&hub));
                let r = hub_sync(&sc, &local, &hub, *ssh);
                evals.fetch_add(1, Ordering::Relaxed);
                let after = snapshot_hub(&hub);
                let det = json!({"part":"sequential","hub":hb,"ssh":ssh,"sequence":names,"step":step});
                if sent_count(&r.stdout).is_some_and(|c| c.0 > 0) {
                    nontrivial.fetch_add(1, Ordering::Relaxed);
                }
                if let Some((k, m)) = post_ok(&lt, &before, &after, &r) {
                    return Some(Violation::new(&k, format!("hub {hb}, {} target, runs {names:?}, run #{step}: {m}; stderr: {}", if *ssh { "host:root" } else { "local" }, r.stderr.lines().last().unwrap_or("")), det));
                }
                if r.code != Some(0) {
                    return Some(Violation::new("unexpected_failure", format!("hub {hb}, runs {names:?}, run #{step}: sequential hub-sync (nobody else writes) exits {:?}: {}", r.code, r.stderr.lines().last().unwrap_or("")), det));
                }
                if local_changed(&local, &lt) {
                    return Some(Violation::new("local_modified", format!("runs {names:?}, run #{step}: the local tree was modified"), det));
                }
                // immediate second run sends nothing
                let r2 = hub_sync(&sc, &local, &hub, *ssh);
                evals.fetch_add(1, Ordering::Relaxed);
                let after2 = snapshot_hub(&hub);
                // (the summary line is compared only when it parses: its wording is not part of the property)
                if r2.code != Some(0) || sent_count(&r2.stdout).is_some_and(|c| c.0 != 0) || after2 != after {
                    return Some(Violation::new("second_run_sends", format!("hub {hb}, runs {names:?}, run #{step}: an immediate second run reports {:?} (exit {:?}) or changed the hub", sent_count(&r2.stdout), r2.code), det));
                }
            }
            None
        })
        .collect()
}

fn local_changed(dir: &Path, t: &Files) -> bool {
    crate::e3::snapshot_dir(dir) != *t
}

// ───────────── (b) two real clients, scheduled servers ─────────────

/// Request-level reference model of two hub-sync clients on one hub, with real-time constraints
/// taken from the scheduler trace: is there a one-at-a-time order of the requests (each List relaxed
/// to independent per-path reads inside its interval — the documented per-file atomicity, cf. C03/D11)
/// that yields the observed counters, exit codes and final hub tree?
#[derive(Clone, Debug)]
enum COp {
    ListRead(usize, String), // client, path
    Put(usize, usize),       // client, k-th planned put
}

fn sorted_local(t: &Files) -> Vec<(String, Vec<u8>)> {
    let mut v: Vec<(String, Vec<u8>)> = t.iter().map(|(k, b)| (k.clone(), b.clone())).collect();
    v.sort_by_key(|(k, _)| std::path::PathBuf::from(k));
    v
}

struct Obs {
    /// per client: step numbers of the server's reads of its stdin after the handshake
    reads: Vec<Vec<usize>>,
    counters: Vec<Option<(u64, u64, u64)>>,
    codes: Vec<Option<i32>>,
}

fn explainable(sys: &System, obs: &Obs, final_tree: &Files) -> bool {
    let n = sys.external.len();
    let mut universe: BTreeSet<String> = sys.init.keys().cloned().collect();
    for c in &sys.external {
        universe.extend(c.tree.keys().cloned());
    }
    let uni: Vec<String> = universe.into_iter().collect();
    // op list with (inv, resp) intervals
    let mut ops: Vec<(COp, usize, usize)> = Vec::new();
    let mut nputs = vec![0usize; n];
    for i in 0..n {
        let r = &obs.reads[i];
        if r.len() < 2 {
            return false; // at least List and Bye/EOF
        }
        for p in &uni {
            ops.push((COp::ListRead(i, p.clone()), r[0], r[1]));
        }
        nputs[i] = r.len() - 2;
        for k in 0..nputs[i] {
            ops.push((COp::Put(i, k), r[1 + k], r[2 + k]));
        }
    }
    #[derive(Clone)]
    struct St {
        hub: Files,
        listing: Vec<std::collections::BTreeMap<String, Option<Hash>>>,
        done_puts: Vec<usize>,
        sent: Vec<u64>,
        conflicts: Vec<u64>,
    }
    fn plan(local: &Files, listing: &std::collections::BTreeMap<String, Option<Hash>>) -> (Vec<(String, Option<Hash>, Vec<u8>)>, u64) {
        let mut puts = Vec::new();
        let mut unchanged = 0;
        for (p, b) in sorted_local(local) {
            let listed = listing.get(&p).copied().flatten();
            if listed == Some(h(&b)) {
                unchanged += 1;
            } else {
                puts.push((p, listed, b));
            }
        }
        (puts, unchanged)
    }
    fn rec(sys: &System, obs: &Obs, final_tree: &Files, ops: &[(COp, usize, usize)], used: &mut Vec<bool>, st: St, uni_len: usize, nputs: &[usize]) -> bool {
        if used.iter().all(|u| *u) {
            for i in 0..sys.external.len() {
                let (_, unchanged) = plan(&sys.external[i].tree, &st.listing[i]);
                let want = obs.counters[i];
                if want != Some((st.sent[i], unchanged, st.conflicts[i])) {
                    return false;
                }
                let code = if st.conflicts[i] == 0 { Some(0) } else { Some(1) };
                if obs.codes[i] != code {
                    return false;
                }
            }
            return live(&st.hub) == live(final_tree);
        }
        for i in 0..ops.len() {
            if used[i] {
                continue;
            }
            if (0..ops.len()).any(|j| !used[j] && j != i && ops[j].2 < ops[i].1) {
                continue;
            }
            let mut s2 = st.clone();
            let ok = match &ops[i].0 {
                COp::ListRead(c, p) => {
                    s2.listing[*c].insert(p.clone(), s2.hub.get(p).map(|b| h(b)));
                    true
                }
                COp::Put(c, k) => {
                    // the client's plan is fixed by its (complete) listing
                    if s2.listing[*c].len() < uni_len || *k != s2.done_puts[*c] {
                        false
                    } else {
                        let (puts, _) = plan(&sys.external[*c].tree, &s2.listing[*c]);
                        if puts.len() != nputs[*c] {
                            false
                        } else {
                            let (p, expected, b) = puts[*k].clone();
                            let cur = s2.hub.get(&p).map(|x| h(x));
                            if cur == expected {
                                s2.hub.insert(p, b);
                                s2.sent[*c] += 1;
                            } else {
                                s2.hub.insert(format!("{p}.conflict-{}", short(&h(&b))), b);
                                s2.conflicts[*c] += 1;
                            }
                            s2.done_puts[*c] += 1;
                            true
                        }
                    }
                }
            };
            if ok {
                used[i] = true;
                if rec(sys, obs, final_tree, ops, used, s2, uni_len, nputs) {
                    used[i] = false;
                    return true;
                }
                used[i] = false;
            }
        }
        false
    }
    let st = St { hub: sys.init.clone(), listing: vec![Default::default(); n], done_puts: vec![0; n], sent: vec![0; n], conflicts: vec![0; n] };
    let mut used = vec![false; ops.len()];
    rec(sys, obs, final_tree, &ops, &mut used, st, uni.len(), &nputs)
}

fn c13_judge<'a>(sys: &'a System, name: &'a str) -> impl Fn(&Exec) -> Vec<Violation> + Sync + 'a {
    move |ex: &Exec| {
        let mut v = Vec::new();
        let det = json!({"part":"concurrent","programs": name, "history": history_json(ex), "clients": ex.ext.iter().map(|e| json!({"exit": e.code, "stdout": e.stdout, "stderr": e.stderr})).collect::<Vec<_>>()});
        if ex.deadlock {
            v.push(Violation::new("deadlock", format!("[{name}] deadlock"), det));
            return v;
        }
        let after = live(&ex.final_tree);
        // direct clauses of the property that need no ordering information
        for (i, e) in ex.ext.iter().enumerate() {
            let local = &sys.external[i].tree;
            if e.code != Some(0) {
                if !e.stderr.contains("CAS conflict") {
                    v.push(Violation::new("unexpected_failure", format!("[{name}] client {i} failed without a CAS conflict: {}", e.stderr.lines().last().unwrap_or("")), det.clone()));
                    return v;
                }
                for (p, b) in local {
                    let ok = after.get(p) == Some(b) || after.get(&format!("{p}.conflict-{}", short(&h(b)))) == Some(b);
                    if !ok {
                        v.push(Violation::new("local_not_retrievable", format!("[{name}] client {i} exited with a CAS conflict but its {p} is neither at the path nor in a conflict-copy; hub: {:?}; schedule {:?}", after.keys().collect::<Vec<_>>(), ex.choices), det.clone()));
                        return v;
                    }
                }
            }
        }
        for (p, b) in &sys.init {
            if !sys.external.iter().any(|c| c.tree.contains_key(p)) && after.get(p) != Some(b) {
                v.push(Violation::new("other_path_touched", format!("[{name}] hub path {p} named by no client changed"), det.clone()));
                return v;
            }
        }
        // the ordering-sensitive clauses (exit 0 => landed; nothing another client committed is overwritten)
        // through the request-level reference model
        let mut reads: Vec<Vec<usize>> = vec![Vec::new(); sys.external.len()];
        for (idx, l) in ex.labels.iter().enumerate() {
            if let Some((t, rest)) = l.split_once(": ") {
                if rest.starts_with("server reads") {
                    if let Ok(t) = t.parse::<usize>() {
                        reads[t].push(idx + 1);
                    }
                }
            }
        }
        // the first read of each server is the handshake (magic + Hello), not a request of the run
        for r in &mut reads {
            if !r.is_empty() {
                r.remove(0);
            }
        }
        let obs = Obs { reads, counters: ex.ext.iter().map(|e| sent_count(&e.stdout)).collect(), codes: ex.ext.iter().map(|e| e.code).collect() };
        if !explainable(sys, &obs, &ex.final_tree) {
            v.push(Violation::new(
                "not_explainable",
                format!(
                    "[{name}] exit codes {:?}, counters (sent, unchanged, conflicts) {:?} and final hub {:?} match no one-at-a-time order of the clients' requests consistent with the order in which they really happened; schedule {:?}",
                    obs.codes,
                    obs.counters,
                    after.iter().map(|(k, b)| (k.clone(), String::from_utf8_lossy(b).into_owned())).collect::<Vec<_>>(),
                    ex.choices
                ),
                det,
            ));
        }
        v
    }
}

fn outcome(ex: &Exec) -> String {
    format!("{:?}|{:?}", ex.ext.iter().map(|e| (e.code, sent_count(&e.stdout))).collect::<Vec<_>>(), live(&ex.final_tree).keys().collect::<Vec<_>>())
}

pub fn run(ctx: &Ctx) -> ! {
    let thorough = ctx.tier.is_thorough();
    EXPLORE_BUDGET_MS.store(if thorough { 900_000 } else { 60_000 }, std::sync::atomic::Ordering::Relaxed);
    let evals = AtomicU64::new(0);
    let nontrivial = AtomicU64::new(0);
    let mut violations: Vec<Violation> = Vec::new();
    let pairs: Vec<(&str, &str, &str, bool)> = if thorough {
        let mut v = Vec::new();
        for hubn in ["empty", "hub-f"] {
            for (a, b) in [("fX", "fY"), ("fX", "fX"), ("fX+dgZ", "fY"), ("fX", "empty"), ("fX+dgZ", "fX+dgZ"), ("fY", "fX+dgZ"), ("fX+zW", "fY"), ("fX+zW", "fX+dgZ")] {
                v.push((hubn, a, b, false));
            }
        }
        v.push(("hub-f", "fX", "fY", true));
        v.push(("empty", "fX+dgZ", "fY", true));
        v
    } else {
        vec![("hub-f", "fX", "fY", false), ("empty", "fX+dgZ", "fY", false), ("hub-f", "fX+zW", "fY", false), ("hub-f", "fX", "fY", true)]
    };
    let specs: Vec<(String, System)> = pairs
        .iter()
        .map(|(hubn, a, b, ssh)| (format!("hub-sync {a} || hub-sync {b} on {hubn}{}", if *ssh { " (host:root)" } else { "" }), System { init: tree(hubn), programs: vec![], external: vec![ExtClient { tree: tree(a), via_ssh: *ssh }, ExtClient { tree: tree(b), via_ssh: *ssh }], late: vec![] }))
        .collect();
    let envs: Vec<Mutex<WorkerEnv>> = (0..16).map(|i| Mutex::new(WorkerEnv::new(&format!("c13w{i}")))).collect();
    if let Some(rp) = &ctx.replay {
        let v: Value = serde_json::from_slice(&std::fs::read(rp).unwrap_or_default()).unwrap_or(Value::Null);
        let d = &v["detail"];
        let mut vs = Vec::new();
        if d["part"] == "concurrent" {
            let name = d["programs"].as_str().unwrap_or("");
            let sched: Vec<u8> = d["history"]["schedule"].as_array().map(|a| a.iter().filter_map(|x| x.as_u64().map(|n| n as u8)).collect()).unwrap_or_default();
            if let Some((n, sys)) = specs.iter().find(|(n, _)| n == name) {
                let env = envs[0].lock().unwrap_or_else(|e| e.into_inner());
                let e1 = run_schedule(&env, sys, &RunOpts { knobs: Knobs::default(), prefix: &sched, allow_kill: false, instant: None });
                let e2 = run_schedule(&env, sys, &RunOpts { knobs: Knobs::default(), prefix: &sched, allow_kill: false, instant: None });
                if outcome(&e1) != outcome(&e2) {
                    machinery_error("replaying the same schedule twice gave different outcomes");
                }
                vs.extend(c13_judge(sys, n)(&e1));
            }
        } else if d["part"] == "io_fault" {
            vs.extend(io_fault_part(true, &evals).into_iter().filter(|x| x.detail["k"] == d["k"] && x.detail["hub"] == d["hub"] && x.detail["errno"] == d["errno"]));
        } else {
            vs.extend(sequential_part(true, &evals, &nontrivial).into_iter().filter(|x| x.detail["sequence"] == d["sequence"] && x.detail["hub"] == d["hub"]));
        }
        let mut rep = Report::new("model_checking");
        rep.set("states", 1u64).set("transitions", 1u64).set("traces_validated_against_impl", 1u64).set("samples", json!([d]));
        finish(ctx, rep, vs);
    }
    violations.extend(sequential_part(thorough, &evals, &nontrivial).into_iter().take(6));
    violations.extend(io_fault_part(thorough, &evals).into_iter().take(4));
    let seq_runs = evals.load(Ordering::Relaxed);
    // determinism of the external-client mode
    {
        let env = envs[0].lock().unwrap_or_else(|e| e.into_inner());
        let a = run_schedule(&env, &specs[0].1, &RunOpts { knobs: Knobs::default(), prefix: &[], allow_kill: false, instant: None });
        let pre: Vec<u8> = a.points.iter().position(|p| p.enabled.len() > 1).map(|i| { let mut c = a.choices[..i].to_vec(); c.push(1); c }).unwrap_or_default();
        let b = run_schedule(&env, &specs[0].1, &RunOpts { knobs: Knobs::default(), prefix: &pre, allow_kill: false, instant: None });
        let c = run_schedule(&env, &specs[0].1, &RunOpts { knobs: Knobs::default(), prefix: &pre, allow_kill: false, instant: None });
        if b.labels != c.labels || outcome(&b) != outcome(&c) {
            machinery_error(format!("external-client schedule replay is not deterministic:\n{:?}\n{:?}", b.labels, c.labels));
        }
    }
    let mut schedules = 0u64;
    let mut steps = 0u64;
    let mut sys_states = 0u64;
    let mut states: BTreeSet<String> = BTreeSet::new();
    let mut per = Vec::new();
    let bound = 2;
    for (name, sys) in &specs {
        let judge = c13_judge(sys, name);
        let out = explore(&envs, sys, bound, false, None, &judge, &outcome, if thorough { 30_000 } else { 4_000 });
        schedules += out.schedules;
        steps += out.steps;
        sys_states += out.distinct_states;
        for o in &out.outcomes {
            states.insert(format!("{name}#{o}"));
        }
        per.push(json!({"programs": name, "preemption_bound": bound, "schedules": out.schedules, "distinct_outcomes": out.outcomes.len(), "distinct_system_states": out.distinct_states, "max_points": out.max_points, "capped": out.stopped_early}));
        let mut vs = out.violations;
        vs.sort_by_key(|v| v.detail["history"]["schedule"].as_array().map_or(0, Vec::len));
        let mut seen: BTreeSet<String> = BTreeSet::new();
        for x in vs {
            if seen.insert(x.kind().to_string()) {
                violations.push(x);
            }
        }
    }
    let mut rep = Report::new("model_checking");
    rep.set("states", sys_states + seq_runs)
        .set("distinct_outcomes", states.len() as u64)
        .set("transitions", steps + seq_runs)
        .set("schedules", schedules)
        .set("traces_validated_against_impl", schedules + seq_runs)
        .set("sequential_runs", seq_runs)
        .set("per_program_pair", Value::Array(per))
        .set("samples", json!([{"sequential":{"hub":"hub-f","ssh":true,"sequence":["fX","fY","fX+dgZ"]}},{"concurrent": specs[0].0}]))
        .set("explanation", "(a) every sequence of <= 2 (quick) / <= 3 (thorough) sequential `copia hub-sync` runs with local trees from {f:X},{f:Y},{f:X,d/g:Z},{} against hubs {}, {f:c0}, {h:c0}, through both target forms (local path: the client spawns its own serve; host:root through the ssh stand-in), each followed by an immediate second run; (b) two REAL hub-sync client processes whose `serve` children are interleaved by the E4 scheduler at every libc call on the hub tree within the preemption bound — this produces the stale-listing window (client 2 commits between client 1's List and its Put). `states` = sequential runs + distinct (hub tree, per-server progress, lock holder) system states of the concurrent part; `distinct_outcomes` = distinct (exit codes, counters, final hub paths) results.");
    rep.assume("clients are free-running real processes; a server's read of its stdin is released only once its client is blocked waiting for the reply, which makes the byte stream seen by the server deterministic");
    finish(ctx, rep, violations);
}
