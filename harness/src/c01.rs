//! C01 (delta round-trip, engine independence) and C16 (no worse than textbook greedy):
//! bounded-exhaustive enumeration at byte level and chunk level, on both engines,
//! plus (C01) the CLI file chain and single-file sync.

use crate::common::*;
use crate::deltacases::*;
use copia::async_sync::AsyncCopiaSync;
use copia::{BlockSignature, CopiaSync, Delta, DeltaOp, Signature, StrongHash, Sync as _};
use rayon::prelude::*;
use serde_json::{json, Value};
use std::io::Cursor;
use std::sync::atomic::{AtomicU64, Ordering};

/// A reader that returns at most `cap` bytes per read call.
struct ShortR<'a> {
    d: &'a [u8],
    pos: usize,
    cap: usize,
}
impl std::io::Read for ShortR<'_> {
    fn read(&mut self, buf: &mut [u8]) -> std::io::Result<usize> {
        let n = buf.len().min(self.cap).min(self.d.len() - self.pos);
        buf[..n].copy_from_slice(&self.d[self.pos..self.pos + n]);
        self.pos += n;
        Ok(n)
    }
}
impl tokio::io::AsyncRead for ShortR<'_> {
    fn poll_read(mut self: std::pin::Pin<&mut Self>, _cx: &mut std::task::Context<'_>, buf: &mut tokio::io::ReadBuf<'_>) -> std::task::Poll<std::io::Result<()>> {
        let n = buf.remaining().min(self.cap).min(self.d.len() - self.pos);
        let (p, d) = (self.pos, self.d);
        buf.put_slice(&d[p..p + n]);
        self.pos += n;
        std::task::Poll::Ready(Ok(()))
    }
}

pub struct Obs {
    pub d_sync: Delta,
    pub d_async: Delta,
}

type Fail = (&'static str, String);

fn lib_roundtrip(basis: &[u8], source: &[u8], bs: usize, legal: bool) -> Result<Obs, Fail> {
    let sig = Signature::generate(&mut &basis[..], bs).map_err(|e| ("error", format!("Signature::generate: {e}")))?;
    let ref_blocks: Vec<BlockSignature> = basis.chunks(bs).enumerate().map(|(i, c)| BlockSignature::compute(i as u32, c)).collect();
    if sig.blocks != ref_blocks || sig.file_size != basis.len() as u64 || sig.block_size != bs {
        return Err(("sig_mismatch", "Signature::generate differs from per-block BlockSignature::compute".into()));
    }
    if legal {
        // readers that return short, unaligned reads (pipes, sockets, chained readers)
        for cap in [1usize, 7, 1000] {
            if basis.len() > 4096 && cap == 1 {
                continue;
            }
            let s4 = CopiaSync::with_block_size(bs).signature(ShortR { d: basis, pos: 0, cap }).map_err(|e| ("error", format!("sync signature (short reads): {e}")))?;
            let s5 = block_on(AsyncCopiaSync::with_block_size(bs).signature(ShortR { d: basis, pos: 0, cap })).map_err(|e| ("error", format!("async signature (short reads): {e}")))?;
            if s4 != sig || s5 != sig {
                return Err(("sig_mismatch", format!("signature depends on how the reader chunks its data (reads of <= {cap} bytes): sync ok={}, async ok={}", s4 == sig, s5 == sig)));
            }
            let d4 = CopiaSync::new().delta(ShortR { d: source, pos: 0, cap }, &sig).map_err(|e| ("error", format!("sync delta (short reads): {e}")))?;
            let d5 = block_on(AsyncCopiaSync::new().delta(ShortR { d: source, pos: 0, cap }, &sig)).map_err(|e| ("error", format!("async delta (short reads): {e}")))?;
            let dref = CopiaSync::new().delta(&source[..], &sig).map_err(|e| ("error", format!("{e}")))?;
            if d4 != dref || d5 != dref {
                return Err(("engine_mismatch", format!("delta depends on how the reader chunks its data (reads of <= {cap} bytes)")));
            }
        }
        let s2 = CopiaSync::with_block_size(bs).signature(&basis[..]).map_err(|e| ("error", format!("sync signature: {e}")))?;
        let s3 = block_on(AsyncCopiaSync::with_block_size(bs).signature(&basis[..])).map_err(|e| ("error", format!("async signature: {e}")))?;
        if s2 != sig || s3 != sig {
            return Err(("sig_mismatch", format!("signatures differ between engines (sync==ref:{}, async==ref:{})", s2 == sig, s3 == sig)));
        }
    }
    let sync = CopiaSync::new();
    let asy = AsyncCopiaSync::new();
    let d_sync = sync.delta(&source[..], &sig).map_err(|e| ("error", format!("sync delta: {e}")))?;
    let d_async = block_on(asy.delta(&source[..], &sig)).map_err(|e| ("error", format!("async delta: {e}")))?;
    if d_sync != d_async {
        return Err(("engine_mismatch", "sync and async engines produced different deltas".into()));
    }
    for (name, d) in [("sync", &d_sync), ("async", &d_async)] {
        if d.source_size != source.len() as u64 {
            return Err(("delta_fields", format!("{name}: source_size {} != {}", d.source_size, source.len())));
        }
        if d.checksum != StrongHash::compute(source) {
            return Err(("delta_fields", format!("{name}: checksum is not BLAKE3(source)")));
        }
        if d.basis_size != basis.len() as u64 || d.block_size as usize != bs {
            return Err(("delta_fields", format!("{name}: basis_size/block_size wrong")));
        }
        let mut total = 0u64;
        for op in &d.ops {
            match op {
                DeltaOp::Copy { offset, len } => {
                    total += u64::from(*len);
                    if offset.checked_add(u64::from(*len)).map_or(true, |e| e > basis.len() as u64) {
                        return Err(("copy_bounds", format!("{name}: copy {offset}+{len} outside basis of {}", basis.len())));
                    }
                }
                DeltaOp::Literal(l) => total += l.len() as u64,
            }
        }
        if total != source.len() as u64 || d.bytes_matched() + d.bytes_literal() != source.len() as u64 {
            return Err(("delta_fields", format!("{name}: copy+literal lengths sum to {total}, source is {}", source.len())));
        }
    }
    let mut out = Vec::with_capacity(source.len());
    sync.patch(Cursor::new(basis), &d_sync, &mut out).map_err(|e| ("roundtrip", format!("sync patch failed: {e}")))?;
    if out != source {
        return Err(("roundtrip", "sync patch output != source".into()));
    }
    let mut out2: Vec<u8> = Vec::with_capacity(source.len());
    block_on(asy.patch(Cursor::new(basis), &d_async, &mut out2)).map_err(|e| ("roundtrip", format!("async patch failed: {e}")))?;
    if out2 != source {
        return Err(("roundtrip", "async patch output != source".into()));
    }
    // the basis is addressed absolutely: a reader that was already used (the same handle that produced the
    // signature is at its end; a caller that peeked is at 1) must give the same result
    for start in [basis.len() as u64, 1u64.min(basis.len() as u64)] {
        let mut c = Cursor::new(basis);
        c.set_position(start);
        let mut o: Vec<u8> = Vec::with_capacity(source.len());
        sync.patch(c, &d_sync, &mut o).map_err(|e| ("roundtrip", format!("sync patch with the basis reader initially at offset {start} failed: {e}")))?;
        if o != source {
            return Err(("roundtrip", format!("sync patch with the basis reader initially at offset {start}: output != source")));
        }
        let mut c = Cursor::new(basis);
        c.set_position(start);
        let mut o: Vec<u8> = Vec::with_capacity(source.len());
        block_on(asy.patch(c, &d_async, &mut o)).map_err(|e| ("roundtrip", format!("async patch with the basis reader initially at offset {start} failed: {e}")))?;
        if o != source {
            return Err(("roundtrip", format!("async patch with the basis reader initially at offset {start}: output != source")));
        }
    }
    Ok(Obs { d_sync, d_async })
}

fn c16_oracle(basis: &[u8], source: &[u8], bs: usize, obs: &Obs, edit: Option<&Value>, stats: &Stats) -> Result<(), Fail> {
    let (ref_lit, ref_copies) = greedy_literal(basis, source, bs, bs <= 8 && source.len() <= 64 && basis.len() <= 64);
    if ref_copies > 0 {
        stats.nontrivial.fetch_add(1, Ordering::Relaxed);
    }
    for (name, d) in [("sync", &obs.d_sync), ("async", &obs.d_async)] {
        let lit = d.bytes_literal();
        if lit > ref_lit {
            return Err(("more_literal_than_greedy", format!("{name}: {lit} literal bytes, textbook greedy needs {ref_lit} (block {bs}, basis {}, source {})", basis.len(), source.len())));
        }
        if lit == ref_lit {
            stats.equal.fetch_add(1, Ordering::Relaxed);
        }
        if source == basis && lit >= bs as u64 && !basis.is_empty() {
            return Err(("identical_not_small", format!("{name}: identical files give {lit} literal bytes >= block {bs}")));
        }
        if let Some(e) = edit {
            let op = e["op"].as_str().unwrap_or("");
            // the corollary speaks about "a file of distinct blocks": a short tail is never a matchable
            // block (also for the textbook scan), so only bases that are a whole number of blocks qualify
            if matches!(op, "insert" | "delete" | "replace") && distinct_blocks(basis, bs) && basis.len() % bs == 0 {
                let k = match e["k"].as_str().unwrap_or("1") {
                    "7" => 7,
                    "B-1" => bs as u64 - 1,
                    _ => 1,
                };
                if lit > k + 2 * bs as u64 {
                    return Err(("edit_bound", format!("{name}: {op} of {k} bytes costs {lit} literal bytes > k+2B = {}", k + 2 * bs as u64)));
                }
            }
        }
    }
    Ok(())
}

pub struct Stats {
    pub evals: AtomicU64,
    pub nontrivial: AtomicU64,
    pub equal: AtomicU64,
}

#[derive(Clone, Copy, PartialEq)]
enum Which {
    C01,
    C16,
}

fn eval_case(which: Which, basis: &[u8], source: &[u8], bs: usize, legal: bool, edit: Option<&Value>, stats: &Stats) -> Option<Fail> {
    stats.evals.fetch_add(1, Ordering::Relaxed);
    let r = catch(std::panic::AssertUnwindSafe(|| {
        let obs = match lib_roundtrip(basis, source, bs, legal) {
            Ok(o) => o,
            Err(f) => {
                // C16 only judges literal counts; a round-trip failure belongs to C01.
                return if which == Which::C01 { Some(f) } else { None };
            }
        };
        match which {
            Which::C01 => {
                if obs.d_sync.ops.iter().any(DeltaOp::is_copy) {
                    stats.nontrivial.fetch_add(1, Ordering::Relaxed);
                }
                None
            }
            Which::C16 => c16_oracle(basis, source, bs, &obs, edit, stats).err(),
        }
    }));
    match r {
        Ok(v) => v,
        Err(p) => Some(("panic", format!("panic: {p}"))),
    }
}

/// Replayable case → (basis, source, bs, legal, edit)
fn materialise(case: &Value, seed: u64) -> (Vec<u8>, Vec<u8>, usize, bool, Option<Value>) {
    if case["level"] == "byte" {
        (unhex(case["basis"].as_str().unwrap_or("")), unhex(case["source"].as_str().unwrap_or("")), case["bs"].as_u64().unwrap_or(1) as usize, false, None)
    } else if case["level"] == "rotate" {
        // A B C -> A A C : same length, every source block exists in the basis
        let b = case["B"].as_u64().unwrap_or(512) as usize;
        let basis = build_basis("R1,R2,H", b, seed);
        let mut source = basis.clone();
        let (first, rest) = source.split_at_mut(b);
        rest[..b].copy_from_slice(first);
        (basis, source, b, true, None)
    } else if case["level"] == "blocks" {
        // basis = N distinct random blocks; source = two runs of whole basis blocks (a long merged copy
        // followed by a copy starting anywhere)
        let b = case["B"].as_u64().unwrap_or(2048) as usize;
        let n = case["N"].as_u64().unwrap_or(40) as usize;
        let basis = junk(seed, 500, b * n);
        let r = |k: &str| case[k].as_u64().unwrap_or(0) as usize;
        let mut source = basis[r("s1") * b..(r("s1") + r("l1")).min(n) * b].to_vec();
        source.extend_from_slice(&basis[r("s2") * b..(r("s2") + r("l2")).min(n) * b]);
        (basis, source, b, true, None)
    } else if case["level"] == "deep" {
        // tens of millions of consecutive non-matching slides, then data that must match
        let b = case["B"].as_u64().unwrap_or(2048) as usize;
        let basis: Vec<u8> = junk(seed, 600, 1 << 20).into_iter().map(|x| x & 0x7F).collect();
        let mut source: Vec<u8> = junk(seed, 601, case["fresh"].as_u64().unwrap_or(0) as usize).into_iter().map(|x| x | 0x80).collect();
        source.extend_from_slice(&basis);
        (basis, source, b, true, None)
    } else if case["level"] == "odd" {
        let bs = case["bs"].as_u64().unwrap_or(1) as usize;
        let (basis, source) = odd_case(case["len"].as_u64().unwrap_or(0) as usize, case["content"].as_str().unwrap_or("rand"), case["edit"].as_str().unwrap_or("identity"), seed);
        (basis, source, bs, false, None)
    } else {
        let b = case["B"].as_u64().unwrap_or(512) as usize;
        let spec = case["basis"].as_str().unwrap_or("");
        let basis = build_basis(spec, b, seed);
        let source = apply_edit(&basis, spec, &case["edit"], b, seed);
        (basis, source, b, true, Some(case["edit"].clone()))
    }
}

/// Library-level "every positive block size": large bases (around the 64 KiB switch to the
/// parallel signature path) with block sizes that are not legal CLI sizes.
fn odd_case(len: usize, content: &str, edit: &str, seed: u64) -> (Vec<u8>, Vec<u8>) {
    let basis: Vec<u8> = match content {
        "rep" => (0..len).map(|i| (i % 251) as u8).collect(),
        _ => junk(seed, 77, len),
    };
    let source = match edit {
        "insert_mid" => {
            let mut s = basis[..len / 2].to_vec();
            s.extend_from_slice(&junk(seed, 78, 13));
            s.extend_from_slice(&basis[len / 2..]);
            s
        }
        "prefix1" => {
            let mut s = vec![0x42u8];
            s.extend_from_slice(&basis);
            s
        }
        "drop_head" => basis[len.min(777)..].to_vec(),
        // one literal run of 3 MiB (more than an async file accepts per write call)
        "big_different" => junk(seed, 79, 3 << 20),
        _ => basis.clone(),
    };
    (basis, source)
}

fn run_lib(which: Which, ctx: &Ctx, stats: &Stats, samples: &mut Vec<Value>, bounds: &mut serde_json::Map<String, Value>) -> Vec<Violation> {
    let thorough = ctx.tier.is_thorough();
    let seed = ctx.seed;
    let mut violations = Vec::new();
    // byte level
    let n = if thorough { 6 } else { 5 };
    let strs = sigma3_strings(n);
    let bss = [1usize, 2, 3, 4];
    let v: Vec<Violation> = (0..strs.len())
        .into_par_iter()
        .flat_map_iter(|bi| {
            let basis = &strs[bi];
            let mut out = Vec::new();
            for &bs in &bss {
                let mut found = false;
                for source in &strs {
                    if let Some((k, m)) = eval_case(which, basis, source, bs, false, None, stats) {
                        if !found {
                            // one (shortest-source) violation per (basis, bs)
                            out.push(Violation::new(k, m, json!({"level":"byte","basis":hex(basis),"source":hex(source),"bs":bs})));
                            found = true;
                        }
                    }
                }
            }
            out
        })
        .collect();
    violations.extend(v);
    bounds.insert("byte_level".into(), json!({"alphabet":[0,1,2],"max_len":n,"strings":strs.len(),"block_sizes":bss}));
    samples.push(json!({"level":"byte","basis":"010001","source":"00010001","bs":3}));

    // chunk level
    let sizes: Vec<usize> = if thorough { LEGAL_SIZES.to_vec() } else { vec![512, 8192, 65536] };
    let maxc = if thorough { 3 } else { 2 };
    let specs = basis_specs(maxc);
    let menu = edit_menu(thorough);
    let mut jobs: Vec<(usize, &String)> = Vec::new();
    for &b in &sizes {
        for s in &specs {
            // keep the largest inputs in budget: 3-chunk bases only up to 16384 in the full menu
            let chunks = s.split(',').filter(|x| !x.is_empty() && *x != "t").count();
            if chunks >= 3 && b > 16384 {
                continue;
            }
            jobs.push((b, s));
        }
    }
    let extra: Vec<(usize, String)> = if thorough {
        // length-3/4 bases at the big sizes: identity / prefix-junk / one insert only
        let mut e = Vec::new();
        for &b in &[32768usize, 65536] {
            for s in ["R1,R2,H", "F,Z,R1", "R1,W,R2,t", "H,F,R1,R2", "R1,R1,W,R1"] {
                e.push((b, s.to_string()));
            }
        }
        e
    } else {
        Vec::new()
    };
    let small_menu = vec![json!({"op":"identity"}), json!({"op":"prefix","j":5001}), json!({"op":"insert","k":"7","o":"B+1"}), json!({"op":"reverse"})];
    let v: Vec<Violation> = jobs
        .par_iter()
        .map(|(b, s)| (*b, (*s).clone(), &menu))
        .chain(extra.par_iter().map(|(b, s)| (*b, s.clone(), &small_menu)))
        .flat_map_iter(|(b, spec, menu)| {
            let basis = build_basis(&spec, b, seed);
            let mut out = Vec::new();
            for e in menu.iter() {
                let source = apply_edit(&basis, &spec, e, b, seed);
                if let Some((k, m)) = eval_case(which, &basis, &source, b, true, Some(e), stats) {
                    out.push(Violation::new(k, m, json!({"level":"chunk","B":b,"basis":spec,"edit":e})).with("B", json!(b)));
                    if out.len() >= 2 {
                        break;
                    }
                }
            }
            out
        })
        .collect();
    violations.extend(v);
    bounds.insert("chunk_level".into(), json!({"block_sizes":sizes,"max_chunks":maxc,"basis_specs":specs.len(),"edits":menu.len(),"chunk_kinds":CHUNK_KINDS,"extra_large_bases":extra.len()}));
    samples.push(json!({"level":"chunk","B":8192,"basis":"R1,W,t","edit":{"op":"insert","k":"7","o":"B+1"}}));

    // odd (non-CLI) block sizes on bases around and above the 64 KiB parallel-signature switch
    let odd_bs: Vec<usize> = if thorough { vec![1, 3, 7, 100, 1000, 1023, 1025, 4097, 30000, 65535, 65537, 100000] } else { vec![3, 1000, 4097, 65537, 100000] };
    // (lengths above 1 MiB and 2 MiB: the parallel signature path splits the basis into per-task spans there)
    let odd_len: Vec<usize> = if thorough { vec![65535, 65536, 65537, 70001, 131072, 200000, (1 << 20) + 1, (2 << 20) + 4097, 3 << 20, (4 << 20) + 123] } else { vec![65536, 65537, 200000, (1 << 20) + 1, (2 << 20) + 4097] };
    let mut ojobs = Vec::new();
    for &bs in &odd_bs {
        for &l in &odd_len {
            for c in ["rand", "rep"] {
                for e in ["identity", "insert_mid", "prefix1", "drop_head"] {
                    ojobs.push((bs, l, c, e));
                }
            }
        }
    }
    let v: Vec<Violation> = ojobs
        .par_iter()
        .filter_map(|&(bs, l, c, e)| {
            let (basis, source) = odd_case(l, c, e, seed);
            eval_case(which, &basis, &source, bs, false, None, stats).map(|(k, m)| Violation::new(k, m, json!({"level":"odd","bs":bs,"len":l,"content":c,"edit":e})))
        })
        .collect();
    violations.extend(v);
    // block programs: a merged copy longer than the 64 KiB copy chunk followed by a copy from every block
    let mut bjobs: Vec<Value> = Vec::new();
    let bsz: Vec<usize> = if thorough { vec![512, 2048, 4096] } else { vec![2048] };
    for &b in &bsz {
        let n = (65536 / b) + 8;
        let long = 65536 / b;
        for l1 in [1usize, long - 1, long, long + 1, n] {
            for s1 in [0usize, 1] {
                for s2 in 0..n {
                    for l2 in [1usize, 2] {
                        bjobs.push(json!({"level":"blocks","B":b,"N":n,"s1":s1,"l1":l1,"s2":s2,"l2":l2}));
                    }
                }
            }
        }
    }
    // one deep path: > 2^25 consecutive non-matching slides before the matching data
    bjobs.push(json!({"level":"deep","B":2048,"fresh": if thorough { (1u64 << 26) + (1 << 22) } else { (1u64 << 25) + (1 << 22) }}));
    let v: Vec<Violation> = bjobs
        .par_iter()
        .filter_map(|case| {
            let (basis, source, b, legal, _) = materialise(case, seed);
            eval_case(which, &basis, &source, b, legal, None, stats).map(|(k, m)| Violation::new(k, m, case.clone()))
        })
        .collect();
    violations.extend(v);
    bounds.insert("block_programs".into(), json!({"block_sizes":bsz,"cases":bjobs.len(),"shape":"run(s1,l1) ++ run(s2,l2) with l1 around 64 KiB / B, every s2; plus one deep-slide case"}));
    samples.push(json!({"level":"blocks","B":2048,"N":40,"s1":0,"l1":33,"s2":1,"l2":1}));
    bounds.insert("odd_block_sizes".into(), json!({"block_sizes":odd_bs,"basis_lengths":odd_len,"contents":["rand","rep"],"edits":4}));
    samples.push(json!({"level":"odd","bs":1000,"len":65537,"content":"rand","edit":"insert_mid"}));
    violations
}

fn replay_lib(which: Which, ctx: &Ctx) -> ! {
    let rp = ctx.replay.clone().unwrap_or_default();
    let v: Value = serde_json::from_slice(&std::fs::read(&rp).unwrap_or_default()).unwrap_or(Value::Null);
    let seed = v["seed"].as_u64().unwrap_or(ctx.seed);
    let stats = Stats { evals: AtomicU64::new(0), nontrivial: AtomicU64::new(0), equal: AtomicU64::new(0) };
    let case = &v["detail"];
    let mut vs = Vec::new();
    if case.get("cli").is_some() {
        vs.extend(cli_case(case, seed));
    } else {
        let (basis, source, bs, legal, edit) = materialise(case, seed);
        let r1 = eval_case(which, &basis, &source, bs, legal, edit.as_ref(), &stats);
        let r2 = eval_case(which, &basis, &source, bs, legal, edit.as_ref(), &stats);
        if r1.is_some() != r2.is_some() {
            machinery_error("replay not deterministic");
        }
        if let Some((k, m)) = r1 {
            vs.push(Violation::new(k, m, case.clone()));
        }
    }
    let mut rep = Report::new("exploration");
    rep.set("evaluations", 2u64).set("distinct_nontrivial", 2u64).set("rule", "replay of one recorded case (twice)").set("samples", json!([case]));
    finish(ctx, rep, vs);
}

// ───────────── CLI file chain and single-file sync (C01 only) ─────────────

fn run_cli(args: &[&std::ffi::OsStr]) -> (Option<i32>, String) {
    let out = std::process::Command::new(cli_bin())
        .args(args)
        .env("RUST_LOG", "off")
        .env("HOME", "/dev/shm")
        .stdin(std::process::Stdio::null())
        .output();
    match out {
        Ok(o) => (o.status.code(), String::from_utf8_lossy(&o.stderr).into_owned()),
        Err(e) => machinery_error(format!("cannot spawn {}: {e}", cli_bin().display())),
    }
}

/// One CLI case: file chain + single-file sync (dst = basis, and dst absent).
pub fn cli_case(case: &Value, seed: u64) -> Option<Violation> {
    let (basis, source, b, _, _) = materialise(case, seed);
    let sc = Scratch::new("c01");
    let p = |n: &str| sc.path(n);
    let os = |x: &std::path::Path| x.as_os_str().to_owned();
    let w = |n: &str, d: &[u8]| {
        if let Err(e) = std::fs::write(p(n), d) {
            machinery_error(format!("scratch write: {e}"));
        }
    };
    w("basis.bin", &basis);
    w("source.bin", &source);
    let mk = |kind: &str, msg: String| {
        let mut c = case.clone();
        c["cli"] = json!(true);
        Some(Violation::new(kind, msg, c))
    };
    let bstr = b.to_string();
    // signature | delta | patch
    let (c1, e1) = run_cli(&[std::ffi::OsStr::new("signature"), &os(&p("basis.bin")), "-o".as_ref(), &os(&p("b.sig")), "-b".as_ref(), bstr.as_ref()]);
    if c1 != Some(0) {
        return mk("cli_chain", format!("copia signature exit {c1:?}: {}", e1.trim()));
    }
    let (c2, e2) = run_cli(&["delta".as_ref(), &os(&p("source.bin")), &os(&p("b.sig")), "-o".as_ref(), &os(&p("s.delta"))]);
    if c2 != Some(0) {
        return mk("cli_chain", format!("copia delta exit {c2:?}: {}", e2.trim()));
    }
    let (c3, e3) = run_cli(&["patch".as_ref(), &os(&p("basis.bin")), &os(&p("s.delta")), "-o".as_ref(), &os(&p("out.bin"))]);
    if c3 != Some(0) {
        return mk("cli_chain", format!("copia patch exit {c3:?}: {}", e3.trim()));
    }
    if std::fs::read(p("out.bin")).ok().as_deref() != Some(&source[..]) {
        return mk("cli_chain", "patched file != source".into());
    }
    // the same patch over an output path that already holds a longer file
    w("out2.bin", &vec![0xEEu8; source.len() + basis.len() + 4097]);
    let (c3b, e3b) = run_cli(&["patch".as_ref(), &os(&p("basis.bin")), &os(&p("s.delta")), "-o".as_ref(), &os(&p("out2.bin"))]);
    if c3b != Some(0) {
        return mk("cli_chain", format!("copia patch over an existing output file exit {c3b:?}: {}", e3b.trim()));
    }
    if std::fs::read(p("out2.bin")).ok().as_deref() != Some(&source[..]) {
        return mk("cli_chain", "patched file != source when the output path already held a longer file".into());
    }
    // files deserialize to exactly the library values
    let sig_lib = Signature::generate(&mut &basis[..], b).ok();
    let sig_file: Option<Signature> = std::fs::read(p("b.sig")).ok().and_then(|d| bincode::deserialize(&d).ok());
    if sig_lib.is_none() || sig_file != sig_lib {
        return mk("cli_files", "b.sig does not deserialize to the library signature".into());
    }
    let d_lib = sig_lib.as_ref().and_then(|s| CopiaSync::new().delta(&source[..], s).ok());
    let d_file: Option<Delta> = std::fs::read(p("s.delta")).ok().and_then(|d| bincode::deserialize(&d).ok());
    if d_lib.is_none() || d_file != d_lib {
        return mk("cli_files", "s.delta does not deserialize to the library delta".into());
    }
    // single-file sync, dst pre-populated with the basis
    w("dst1.bin", &basis);
    let (c4, e4) = run_cli(&["sync".as_ref(), &os(&p("source.bin")), &os(&p("dst1.bin")), "-b".as_ref(), bstr.as_ref()]);
    if c4 != Some(0) || std::fs::read(p("dst1.bin")).ok().as_deref() != Some(&source[..]) {
        return mk("cli_sync", format!("copia sync onto basis: exit {c4:?}, dst==source: {}; {}", std::fs::read(p("dst1.bin")).ok().as_deref() == Some(&source[..]), e4.trim()));
    }
    // dst absent
    let (c5, e5) = run_cli(&["sync".as_ref(), &os(&p("source.bin")), &os(&p("dst2.bin")), "-b".as_ref(), bstr.as_ref()]);
    if c5 != Some(0) || std::fs::read(p("dst2.bin")).ok().as_deref() != Some(&source[..]) {
        return mk("cli_sync", format!("copia sync to absent dst: exit {c5:?}; {}", e5.trim()));
    }
    if std::fs::read(p("source.bin")).ok().as_deref() != Some(&source[..]) || std::fs::read(p("basis.bin")).ok().as_deref() != Some(&basis[..]) {
        return mk("cli_sync", "an input file was modified".into());
    }
    None
}

/// Environment errors under the CLI: the k-th libc call on the scratch directory (mutating calls; in a second pass
/// the read-side calls too) FAILS, for every k, while `copia sync SRC DST` (single file, DST holding an older
/// version) and `copia patch` run. A command that exits 0 must still have produced exactly the source.
fn cli_io_faults(seed: u64, thorough: bool) -> (u64, Vec<Violation>) {
    let basis = junk(seed, 900, 150_000);
    let mut source = basis.clone();
    source.splice(70_000..70_000, junk(seed, 901, 333));
    source.truncate(149_000);
    let errnos: Vec<(i32, bool)> = if thorough { vec![(28, false), (5, false), (13, true), (5, true), (-1, false)] } else { vec![(28, false), (13, true), (-1, false)] };
    let jobs: Vec<(&str, i32, bool)> = ["sync", "patch"].iter().flat_map(|c| errnos.iter().map(move |e| (*c, e.0, e.1))).collect();
    let res: Vec<(u64, Vec<Violation>)> = jobs
        .par_iter()
        .map(|&(cmd, errno, reads)| {
            let mut runs = 0u64;
            let mut out = Vec::new();
            let run = |k: Option<u64>, runs: &mut u64| -> (Option<i32>, Option<Vec<u8>>, String, u64, Option<String>) {
                *runs += 1;
                let sc = Scratch::new("c01io");
                let p = |n: &str| sc.path(n);
                let _ = std::fs::write(p("source.bin"), &source);
                let _ = std::fs::write(p("dst.bin"), &basis);
                let _ = std::fs::write(p("basis.bin"), &basis);
                let mut c = std::process::Command::new(cli_bin());
                if cmd == "sync" {
                    c.arg("sync").arg(p("source.bin")).arg(p("dst.bin")).arg("-b").arg("2048");
                } else {
                    // prepare signature + delta fault-free, then patch under faults
                    let (c1, _) = run_cli(&["signature".as_ref(), p("basis.bin").as_os_str(), "-o".as_ref(), p("b.sig").as_os_str(), "-b".as_ref(), "2048".as_ref()]);
                    let (c2, _) = run_cli(&["delta".as_ref(), p("source.bin").as_os_str(), p("b.sig").as_os_str(), "-o".as_ref(), p("s.delta").as_os_str()]);
                    if c1 != Some(0) || c2 != Some(0) {
                        machinery_error("C01 I/O-fault part: cannot prepare signature/delta");
                    }
                    c.arg("patch").arg(p("basis.bin")).arg(p("s.delta")).arg("-o").arg(p("dst.bin"));
                }
                let logp = p("shim.log");
                c.env("RUST_LOG", "off").env("LD_PRELOAD", crate::e3::SHIM).env("VSHIM_ROOT", &sc.root).env("VSHIM_LOG", &logp).env("VSHIM_COUNT_READS", if reads { "1" } else { "0" }).env("TOKIO_WORKER_THREADS", "1");
                match k {
                    Some(k) => {
                        c.env("VSHIM_MODE", "inject").env("VSHIM_KILL_AT", u64::MAX.to_string()).env("VSHIM_FAIL_AT", k.to_string()).env("VSHIM_FAIL_ERRNO", errno.to_string());
                    }
                    None => {
                        c.env("VSHIM_MODE", "log");
                    }
                }
                let (code, _o, e) = output_with_timeout(&mut c, 60);
                let log = std::fs::read_to_string(&logp).unwrap_or_default();
                let failed = log.lines().find(|l| l.ends_with("FAILED")).map(|l| l.split('\t').skip(2).take(2).collect::<Vec<_>>().join(" "));
                (code, std::fs::read(p("dst.bin")).ok(), String::from_utf8_lossy(&e).into_owned(), log.lines().count() as u64, failed)
            };
            let (c0, d0, e0, n, _) = run(None, &mut runs);
            if c0 != Some(0) || d0.as_deref() != Some(&source[..]) {
                // no clean baseline on this tree: judged by the fault-free CLI cases
                let _ = e0;
                return (runs, out);
            }
            // many reads of a 150 KB file: every k up to a cap that covers open/stat/first+last reads and all writes
            for k in 1..=n.min(if thorough { 400 } else { 160 }) {
                let (code, dst, err, _, failed) = run(Some(k), &mut runs);
                let Some(failed) = failed else { continue };
                if code == Some(0) && dst.as_deref() != Some(&source[..]) {
                    out.push(Violation::new("io_error_swallowed", format!("`copia {cmd}` with libc call #{k}{} ({}) failing with errno {errno}: exit 0 but the destination ({} bytes) is not the source ({} bytes); stderr: {}", if reads { " (reads counted)" } else { "" }, failed.rsplit('/').next().unwrap_or(""), dst.as_ref().map_or(0, Vec::len), source.len(), err.lines().last().unwrap_or("")), json!({"io_fault": {"cmd": cmd, "k": k, "errno": errno, "reads": reads}, "cli": true})));
                    if out.len() >= 2 {
                        break;
                    }
                }
                if code.is_none() {
                    out.push(Violation::new("cli_crash", format!("`copia {cmd}` with libc call #{k} failing with errno {errno}: killed by a signal or timed out; stderr: {}", err.lines().last().unwrap_or("")), json!({"io_fault": {"cmd": cmd, "k": k, "errno": errno, "reads": reads}, "cli": true})));
                    break;
                }
            }
            (runs, out)
        })
        .collect();
    (res.iter().map(|r| r.0).sum(), res.into_iter().flat_map(|r| r.1).collect())
}

fn run_cli_part(ctx: &Ctx, samples: &mut Vec<Value>, bounds: &mut serde_json::Map<String, Value>) -> (u64, Vec<Violation>) {
    let thorough = ctx.tier.is_thorough();
    let sizes: Vec<usize> = if thorough { LEGAL_SIZES.to_vec() } else { vec![512, 65536] };
    let specs = basis_specs(if thorough { 2 } else { 1 });
    let menu = edit_menu(false);
    let mut jobs = Vec::new();
    for &b in &sizes {
        for s in &specs {
            for e in &menu {
                jobs.push(json!({"level":"chunk","B":b,"basis":s,"edit":e}));
            }
        }
    }
    // block permutations / repetitions of the same total size (a copy-only delta that still changes the file)
    for (spec, op) in [("R1,R2,H", "reverse"), ("R1,R2", "reverse"), ("R1,R2,F", "dupfirst"), ("Z,R1,R2", "dropfirst"), ("R1,W,R2", "reverse")] {
        jobs.push(json!({"level":"chunk","B":512,"basis":spec,"edit":{"op":op}}));
    }
    jobs.push(json!({"level":"rotate","B":512}));
    for bs in [512usize, 65536] {
        jobs.push(json!({"level":"odd","bs":bs,"len":1000,"content":"rand","edit":"big_different"}));
        jobs.push(json!({"level":"odd","bs":bs,"len":200000,"content":"rep","edit":"insert_mid"}));
    }
    let seed = ctx.seed;
    let n = jobs.len() as u64;
    let mut v: Vec<Violation> = jobs.par_iter().filter_map(|c| cli_case(c, seed)).collect();
    let (fault_runs, fv) = cli_io_faults(seed, thorough);
    v.extend(fv);
    bounds.insert("cli_io_fault_runs".into(), json!(fault_runs));
    bounds.insert("cli".into(), json!({"block_sizes":sizes,"basis_specs":specs.len(),"edits":menu.len(),"cases":n,"commands_per_case":5}));
    samples.push(json!({"cli":true,"level":"chunk","B":65536,"basis":"W,t","edit":{"op":"delete","k":"B-1","o":"B+1"}}));
    (n, v)
}

pub fn run_c01(ctx: &Ctx) -> ! {
    if ctx.replay.is_some() {
        replay_lib(Which::C01, ctx);
    }
    let stats = Stats { evals: AtomicU64::new(0), nontrivial: AtomicU64::new(0), equal: AtomicU64::new(0) };
    let mut samples = Vec::new();
    let mut bounds = serde_json::Map::new();
    let mut violations = run_lib(Which::C01, ctx, &stats, &mut samples, &mut bounds);
    let (ncli, vcli) = run_cli_part(ctx, &mut samples, &mut bounds);
    violations.extend(vcli);
    let mut rep = Report::new("exploration");
    rep.set("evaluations", stats.evals.load(Ordering::Relaxed) + ncli)
        .set("distinct_nontrivial", stats.nontrivial.load(Ordering::Relaxed))
        .set("rule", "every (basis, source) pair over {0,1,2}^<=n at library block sizes 1..4, and every (chunk-string basis x edit script) at the legal block sizes; both engines on every case; non-trivial = the delta contains at least one copy (a match was found and confirmed)")
        .set("cli_cases", ncli)
        .set("samples", Value::Array(samples))
        .set("bounds", Value::Object(bounds))
        .set("exhaustive", true);
    rep.assume("inputs bounded as in coverage.bounds; chunk contents drawn from 7 fixed kinds (zero, 0xFF, high bytes, two seeded blocks, a constructed weak-checksum collision, a short tail)");
    rep.assume("CLI built from the working tree with release semantics (debug assertions off, panic=abort)");
    finish(ctx, rep, violations);
}

pub fn run_c16(ctx: &Ctx) -> ! {
    if ctx.replay.is_some() {
        replay_lib(Which::C16, ctx);
    }
    // self-check of the reference's pre-filter against the unfiltered reference
    {
        let strs = sigma3_strings(5);
        for basis in strs.iter().step_by(7) {
            for source in strs.iter().step_by(3) {
                for bs in 1..=4usize {
                    if greedy_literal(basis, source, bs, true) != greedy_literal(basis, source, bs, false) {
                        machinery_error("reference greedy: filtered and brute-force variants disagree");
                    }
                }
            }
        }
    }
    let stats = Stats { evals: AtomicU64::new(0), nontrivial: AtomicU64::new(0), equal: AtomicU64::new(0) };
    let mut samples = Vec::new();
    let mut bounds = serde_json::Map::new();
    let violations = run_lib(Which::C16, ctx, &stats, &mut samples, &mut bounds);
    let mut rep = Report::new("exploration");
    rep.set("evaluations", stats.evals.load(Ordering::Relaxed))
        .set("distinct_nontrivial", stats.nontrivial.load(Ordering::Relaxed))
        .set("rule", "same input space as C01; oracle = literal bytes <= textbook greedy (byte comparison) on both engines, plus the identical-file and single-edit corollaries; non-trivial = the reference greedy emits at least one copy")
        .set("literal_equal_to_reference", stats.equal.load(Ordering::Relaxed))
        .set("samples", Value::Array(samples))
        .set("bounds", Value::Object(bounds))
        .set("exhaustive", true);
    rep.assume("inputs bounded as in coverage.bounds");
    finish(ctx, rep, violations);
}
