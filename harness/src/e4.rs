//! E4 — stateless model checking of real `copia serve` processes under a controlled scheduler
//! (libvshim.so, sched mode): all interleavings of their file-system steps within a preemption
//! bound, CHESS-style, every execution on fresh processes and a fresh hub tree.

use crate::common::*;
use crate::wire::{Request, Response};
use serde_json::{json, Value};
use std::collections::{BTreeMap, BTreeSet};
use std::io::{BufRead, BufReader, Read, Write};
use std::os::unix::net::{UnixListener, UnixStream};
use std::path::{Path, PathBuf};
use std::sync::atomic::{AtomicU64, Ordering};
use std::sync::Mutex;

pub type Files = BTreeMap<String, Vec<u8>>;
pub type Hash = [u8; 32];

pub fn h(b: &[u8]) -> Hash {
    *blake3::hash(b).as_bytes()
}
pub fn short(hh: &Hash) -> String {
    hex(&hh[..6])
}

// ───────────────────────── client programs ─────────────────────────

#[derive(Clone, Debug, PartialEq)]
pub enum Exp {
    Absent,
    HashOf(Vec<u8>),
    /// whatever the client's last List reply reported for this path
    Listed,
    Raw(Option<Hash>),
}

#[derive(Clone, Debug, PartialEq)]
pub enum Op {
    Put { path: String, expected: Exp, content: Vec<u8>, pieces: usize, declared_hash: Option<Hash>, declared_len: Option<u64>, extra_bytes: Vec<u8> },
    Delete { path: String, expected: Exp },
    Get { path: String },
    List,
}

pub fn put(path: &str, expected: Exp, content: &[u8]) -> Op {
    Op::Put { path: path.into(), expected, content: content.to_vec(), pieces: 1, declared_hash: None, declared_len: None, extra_bytes: Vec::new() }
}

#[derive(Clone, Debug, PartialEq)]
pub enum Reply {
    PutResult { committed: bool, current: Option<Hash> },
    DeleteResult { deleted: bool, current: Option<Hash> },
    Content { len: u64, hash: Hash, bytes: Vec<u8> },
    Fingerprints(BTreeMap<String, Hash>),
    Error(String),
    Hello,
}

#[derive(Clone, Debug)]
pub struct OpRec {
    pub client: usize,
    pub op: Op,
    pub expected: Option<Hash>,
    pub inv: usize,
    pub resp: Option<usize>,
    pub reply: Option<Reply>,
}

pub struct System {
    pub init: Files,
    pub programs: Vec<Vec<Op>>,
    /// when non-empty: thread i is a REAL `copia hub-sync` client process (free-running, inert under
    /// the interposer) whose `copia serve` child is the scheduled process; `programs` is ignored
    pub external: Vec<ExtClient>,
    /// servers whose START-UP (creating the control directory, anything else the server does before its
    /// first request) is part of the explored schedule instead of being run to completion up front
    pub late: Vec<usize>,
}

#[derive(Clone, Debug)]
pub struct ExtClient {
    pub tree: Files,
    pub via_ssh: bool,
}

#[derive(Clone, Debug, Default)]
pub struct ExtResult {
    pub code: Option<i32>,
    pub stdout: String,
    pub stderr: String,
}

/// Optional knobs of one execution (defaults: shim root = hub root, cwd inherited).
#[derive(Default, Clone)]
pub struct Knobs {
    /// VSHIM_ROOT override (e.g. "/" to have EVERY path-taking libc call announced)
    pub shim_root: Option<String>,
    pub cwd: Option<PathBuf>,
}

// ───────────────────────── one controlled server ─────────────────────────

#[derive(Clone, Debug, PartialEq)]
enum Parked {
    At(String, String, String), // call, p1, p2
    WantInput,
    Blocked,
    Exited,
}

struct Srv {
    child: std::process::Child,
    stdin: Option<std::process::ChildStdin>,
    stdout: Option<std::process::ChildStdout>,
    ctl: BufReader<UnixStream>,
    parked: Parked,
    outbuf: Vec<u8>,
    parsed_upto: usize,
    /// deliveries still to make: (bytes, Some(op index) if it starts a request)
    next_op: usize,
    pending_pieces: Vec<Vec<u8>>,
    last_list: Option<BTreeMap<String, Hash>>,
    replies_seen: usize,
    awaiting: Option<usize>, // op index whose reply is outstanding
    hello_sent: bool,
    hello_pending: bool,
    killed: bool,
    trace: Vec<String>,
}

pub struct WorkerEnv {
    pub sc: Scratch,
    pub root: PathBuf,
    sock_path: PathBuf,
    listener: UnixListener,
}

impl WorkerEnv {
    pub fn new(tag: &str) -> Self {
        let sc = Scratch::new(tag);
        let root = sc.path("hub");
        let sock_path = sc.path("ctl.sock");
        let listener = UnixListener::bind(&sock_path).unwrap_or_else(|e| machinery_error(format!("bind {}: {e}", sock_path.display())));
        Self { sc, root, sock_path, listener }
    }
}

fn set_nonblocking(fd: i32) {
    unsafe {
        let fl = libc::fcntl(fd, libc::F_GETFL);
        libc::fcntl(fd, libc::F_SETFL, fl | libc::O_NONBLOCK);
    }
}

pub fn frame_of(req: &Request) -> Vec<u8> {
    let mut v = Vec::new();
    crate::wire::write_frame(&mut v, req).unwrap_or_else(|e| machinery_error(format!("encode request: {e}")));
    v
}

const STEP_TIMEOUT_MS: i32 = 8000;

impl Srv {
    /// Read control lines until the server parks again (or exits). Returns DONE lines seen.
    fn wait_parked(&mut self) -> Vec<String> {
        use std::os::fd::AsRawFd;
        let mut dones = Vec::new();
        loop {
            // poll with timeout so a hung server is a machinery error, not a hang of the explorer
            if self.ctl.buffer().is_empty() {
                // (the server's stdout is drained while waiting: a reply larger than the pipe must not wedge it)
                let t0 = std::time::Instant::now();
                loop {
                    let mut pfd = libc::pollfd { fd: self.ctl.get_ref().as_raw_fd(), events: libc::POLLIN, revents: 0 };
                    let r = unsafe { libc::poll(&mut pfd, 1, 20) };
                    if r != 0 {
                        break;
                    }
                    self.drain_stdout();
                    if t0.elapsed().as_millis() as i32 > STEP_TIMEOUT_MS {
                        machinery_error(format!("a controlled server did not reach its next scheduling point within {STEP_TIMEOUT_MS} ms; trace tail: {:?}", self.trace.iter().rev().take(5).collect::<Vec<_>>()));
                    }
                }
            }
            let mut line = String::new();
            let n = self.ctl.read_line(&mut line).unwrap_or(0);
            if n == 0 {
                self.parked = Parked::Exited;
                return dones;
            }
            let line = line.trim_end().to_string();
            let mut it = line.splitn(5, ' ');
            match it.next() {
                Some("DONE") => {
                    self.trace.push(line.clone());
                    dones.push(line);
                }
                Some("AT") => {
                    let call = it.next().unwrap_or("").to_string();
                    let p1 = it.next().unwrap_or("").to_string();
                    let p2 = it.next().unwrap_or("").to_string();
                    self.trace.push(format!("AT {call} {} {}", p1.rsplit('/').next().unwrap_or(""), p2.rsplit('/').next().unwrap_or("")));
                    self.parked = Parked::At(call, p1, p2);
                    return dones;
                }
                Some("WANT_INPUT") => {
                    self.parked = Parked::WantInput;
                    return dones;
                }
                Some("BLOCKED") => {
                    self.parked = Parked::Blocked;
                    return dones;
                }
                Some("HELLO") => {}
                _ => machinery_error(format!("unexpected control line {line:?}")),
            }
        }
    }
    fn go(&mut self) {
        let msg: &[u8] = if self.parked == Parked::Blocked { b"RETRY\n" } else { b"GO\n" };
        if self.ctl.get_mut().write_all(msg).is_err() {
            self.parked = Parked::Exited;
        }
    }
    fn drain_stdout(&mut self) {
        let mut buf = [0u8; 65536];
        let Some(so) = self.stdout.as_mut() else { return };
        loop {
            match so.read(&mut buf) {
                Ok(0) => break,
                Ok(n) => self.outbuf.extend_from_slice(&buf[..n]),
                Err(_) => break, // EAGAIN
            }
        }
    }
}

/// Parse as many complete replies as are available; `kinds[i]` tells whether reply i belongs to a Get.
pub fn parse_replies(buf: &[u8], from: usize) -> (Vec<Result<Reply, String>>, usize) {
    let mut out = Vec::new();
    let mut pos = from;
    loop {
        if buf.len() < pos + 4 {
            break;
        }
        let len = u32::from_be_bytes([buf[pos], buf[pos + 1], buf[pos + 2], buf[pos + 3]]) as usize;
        if len > (1 << 20) {
            out.push(Err(format!("reply stream out of step: frame length {len}")));
            return (out, buf.len());
        }
        if buf.len() < pos + 4 + len {
            break;
        }
        let body = &buf[pos + 4..pos + 4 + len];
        let resp: Result<Response, _> = ciborium::de::from_reader(body);
        let mut consumed = 4 + len;
        let r = match resp {
            Err(e) => Err(format!("reply does not decode: {e}")),
            Ok(Response::Hello { .. }) => Ok(Reply::Hello),
            Ok(Response::Fingerprints(m)) => Ok(Reply::Fingerprints(m.into_iter().map(|(k, v)| (k, v.blake3)).collect())),
            Ok(Response::PutResult { committed, current }) => Ok(Reply::PutResult { committed, current }),
            Ok(Response::DeleteResult { deleted, current }) => Ok(Reply::DeleteResult { deleted, current }),
            Ok(Response::Error(s)) => Ok(Reply::Error(s)),
            Ok(Response::Content { len: l, hash }) => {
                let l = l as usize;
                if buf.len() < pos + consumed + l {
                    break; // content not complete yet
                }
                let bytes = buf[pos + consumed..pos + consumed + l].to_vec();
                consumed += l;
                Ok(Reply::Content { len: l as u64, hash, bytes })
            }
        };
        out.push(r);
        pos += consumed;
    }
    (out, pos)
}

pub fn snapshot_hub(root: &Path) -> Files {
    crate::e3::snapshot_dir(root).into_iter().filter(|(p, _)| !p.starts_with(".copia/")).collect()
}
pub fn is_staging(p: &str) -> bool {
    p.ends_with(".copia-tmp")
}
pub fn live(f: &Files) -> Files {
    f.iter().filter(|(p, _)| !is_staging(p)).map(|(k, v)| (k.clone(), v.clone())).collect()
}

#[derive(Clone, Debug)]
pub struct PointRec {
    pub enabled: Vec<usize>,
    pub chosen: u8,
    pub current_enabled: bool,
    pub preemptions_before: u32,
    pub killable: Vec<usize>,
}

pub struct Exec {
    pub choices: Vec<u8>,
    pub points: Vec<PointRec>,
    pub ops: Vec<OpRec>,
    pub final_tree: Files,
    pub deadlock: bool,
    pub exit_codes: Vec<Option<i32>>,
    pub signals: Vec<Option<i32>>,
    pub instant_violation: Option<(String, String)>,
    pub reply_errors: Vec<String>,
    pub steps: usize,
    pub labels: Vec<String>,
    pub killed: Option<usize>,
    pub kill_pre_tree: Option<Files>,
    /// every announced call after the handshake: (client, call, path1, path2)
    pub calls: Vec<(usize, String, String, String)>,
    pub ext: Vec<ExtResult>,
    /// hash of (normalised hub tree incl. staging files, per-server progress) after every step
    pub state_keys: Vec<u64>,
}

pub struct RunOpts<'a> {
    pub knobs: Knobs,
    pub prefix: &'a [u8],
    pub allow_kill: bool,
    /// oracle evaluated after every step on the hub tree; returns a violation (kind, message)
    pub instant: Option<&'a (dyn Fn(&Files) -> Option<(String, String)> + Sync)>,
}

const KILL_BASE: u8 = 100;

pub fn run_schedule(env: &WorkerEnv, sys: &System, opts: &RunOpts) -> Exec {
    use std::os::fd::AsRawFd;
    use std::os::unix::process::ExitStatusExt;
    // fresh hub tree
    let _ = std::fs::remove_dir_all(&env.root);
    let _ = std::fs::create_dir_all(&env.root);
    for (p, b) in sys.init.iter().filter(|(p, _)| !p.contains("<pid")) {
        let full = env.root.join(p);
        if let Some(d) = full.parent() {
            let _ = std::fs::create_dir_all(d);
        }
        let _ = std::fs::write(&full, b);
    }
    let ext = !sys.external.is_empty();
    let n = if ext { sys.external.len() } else { sys.programs.len() };
    let mut children = Vec::new();
    for i in 0..n {
        let mut cmd = std::process::Command::new(cli_bin());
        if let Some(d) = &opts.knobs.cwd {
            cmd.current_dir(d);
        }
        cmd.env("LD_PRELOAD", crate::e3::SHIM)
            .env("VSHIM_MODE", "sched")
            .env("VSHIM_SOCK", &env.sock_path)
            .env("VSHIM_ROOT", opts.knobs.shim_root.clone().unwrap_or_else(|| env.root.to_string_lossy().into_owned()))
            .env("VSHIM_CLIENT_ID", i.to_string())
            .env("TOKIO_WORKER_THREADS", "1")
            .env("RUST_LOG", "off");
        if ext {
            // a real hub-sync client; the interposer is inert in it and active in the `serve` it spawns
            let local = env.sc.path(&format!("local{i}"));
            let _ = std::fs::remove_dir_all(&local);
            let _ = std::fs::create_dir_all(&local);
            for (p, b) in &sys.external[i].tree {
                let full = local.join(p);
                if let Some(d) = full.parent() {
                    let _ = std::fs::create_dir_all(d);
                }
                let _ = std::fs::write(&full, b);
            }
            let target = if sys.external[i].via_ssh { format!("rh:{}", env.root.display()) } else { env.root.to_string_lossy().into_owned() };
            cmd.arg("hub-sync").arg(&local).arg(target);
            if sys.external[i].via_ssh {
                cmd.env("PATH", format!("{}:{}", crate::e3::STANDIN_DIR, std::env::var("PATH").unwrap_or_default()))
                    .env("VSTANDIN_SCHED", crate::e3::SHIM)
                    .env("VSTANDIN_HOME", env.sc.path("rhome"))
                    .env("VSTANDIN_BIN", cli_bin().parent().map(|p| p.to_path_buf()).unwrap_or_default());
                let _ = std::fs::create_dir_all(env.sc.path("rhome"));
            }
            let (o, e) = (env.sc.path(&format!("client{i}.out")), env.sc.path(&format!("client{i}.err")));
            cmd.stdin(std::process::Stdio::null())
                .stdout(std::fs::File::create(o).unwrap_or_else(|e| machinery_error(format!("{e}"))))
                .stderr(std::fs::File::create(e).unwrap_or_else(|e| machinery_error(format!("{e}"))));
        } else {
            cmd.arg("serve").arg(&env.root).stdin(std::process::Stdio::piped()).stdout(std::process::Stdio::piped()).stderr(std::process::Stdio::null());
        }
        let c = cmd.spawn().unwrap_or_else(|e| machinery_error(format!("spawn copia: {e}")));
        children.push(Some(c));
    }
    // accept the N control connections and identify them
    let mut conns: Vec<Option<BufReader<UnixStream>>> = (0..n).map(|_| None).collect();
    for _ in 0..n {
        let mut pfd = libc::pollfd { fd: env.listener.as_raw_fd(), events: libc::POLLIN, revents: 0 };
        if unsafe { libc::poll(&mut pfd, 1, 10_000) } == 0 {
            machinery_error("a controlled server never connected to the scheduler socket (is the interposer loaded?)");
        }
        let (s, _) = env.listener.accept().unwrap_or_else(|e| machinery_error(format!("accept: {e}")));
        let mut r = BufReader::new(s);
        let mut line = String::new();
        let _ = r.read_line(&mut line);
        let id: usize = line.split_whitespace().nth(2).and_then(|x| x.parse().ok()).unwrap_or_else(|| machinery_error(format!("bad HELLO {line:?}")));
        conns[id] = Some(r);
    }
    let mut srv: Vec<Srv> = Vec::new();
    for i in 0..n {
        let mut c = children[i].take().unwrap_or_else(|| machinery_error("child"));
        let stdin = c.stdin.take();
        let stdout = c.stdout.take();
        if let Some(so) = &stdout {
            set_nonblocking(so.as_raw_fd());
        }
        srv.push(Srv { child: c, stdin, stdout, ctl: conns[i].take().unwrap_or_else(|| machinery_error("conn")), parked: Parked::At("start".into(), String::new(), String::new()), outbuf: Vec::new(), parsed_upto: 0, next_op: 0, pending_pieces: Vec::new(), last_list: None, replies_seen: 0, awaiting: None, hello_sent: false, hello_pending: false, killed: false, trace: Vec::new() });
    }
    // leftovers of EARLIER server processes that happened to have the same pid (pid reuse): init entries whose
    // name contains <pidN> are created now that server N's pid is known
    for (p, b) in sys.init.iter().filter(|(p, _)| p.contains("<pid")) {
        let mut name = p.clone();
        for (i, s) in srv.iter().enumerate() {
            name = name.replace(&format!("<pid{i}>"), &s.child.id().to_string());
        }
        let full = env.root.join(&name);
        if let Some(d) = full.parent() {
            let _ = std::fs::create_dir_all(d);
        }
        let _ = std::fs::write(&full, b);
    }
    // start-up phase, one server at a time, not part of the explored schedule:
    // run to the first read of stdin, deliver magic + Hello, run to the next read of stdin.
    for (si, s) in srv.iter_mut().enumerate() {
        if sys.late.contains(&si) && !ext {
            continue; // this server's start-up is scheduled like everything else
        }
        s.hello_sent = true;
        s.go();
        loop {
            s.wait_parked();
            match s.parked {
                Parked::WantInput | Parked::Exited => break,
                _ => s.go(),
            }
        }
        if ext {
            continue; // the real client performs the handshake itself
        }
        let mut hello = crate::wire::MAGIC.to_vec();
        hello.extend(frame_of(&Request::Hello { version: 1 }));
        if let Some(w) = s.stdin.as_mut() {
            let _ = w.write_all(&hello);
            let _ = w.flush();
        }
        s.go();
        loop {
            s.wait_parked();
            match s.parked {
                Parked::WantInput | Parked::Exited => break,
                _ => s.go(),
            }
        }
        s.drain_stdout();
        let (rs, upto) = parse_replies(&s.outbuf, 0);
        if rs.len() != 1 || rs[0] != Ok(Reply::Hello) {
            machinery_error(format!("server handshake failed: {rs:?}"));
        }
        s.parsed_upto = upto;
        s.trace.clear();
    }

    let mut ex = Exec { choices: Vec::new(), points: Vec::new(), ops: Vec::new(), final_tree: Files::new(), deadlock: false, exit_codes: vec![None; n], signals: vec![None; n], instant_violation: None, reply_errors: Vec::new(), steps: 0, labels: Vec::new(), killed: None, kill_pre_tree: None, calls: Vec::new(), ext: Vec::new(), state_keys: Vec::new() };
    let mut current: Option<usize> = None;
    let mut preemptions = 0u32;
    let mut lock_holder: Option<usize> = None;
    // a lock waiter whose retry just failed stays disabled until some OTHER thread has taken a step
    // (the holder heuristic can be wrong when the code under test uses more than one lock inode)
    let mut retry_failed: Vec<bool> = vec![false; n];
    let mut progress: Vec<u32> = vec![0; n];
    let mut op_index: Vec<Vec<usize>> = vec![Vec::new(); n]; // per client: indices into ex.ops
    let mut step_no = 0usize;
    loop {
        // who can move?
        let alive: Vec<usize> = (0..n).filter(|&i| srv[i].parked != Parked::Exited).collect();
        if alive.is_empty() {
            break;
        }
        let mut enabled: Vec<usize> = alive.iter().copied().filter(|&i| srv[i].parked != Parked::Blocked || (!retry_failed[i] && (lock_holder.is_none() || lock_holder == Some(i)))).collect();
        if enabled.is_empty() {
            // only lock waiters are left: let them retry once (the holder may have released by closing)
            if lock_holder.is_some() && alive.iter().any(|&i| !retry_failed[i]) {
                lock_holder = None;
                continue;
            }
            ex.deadlock = true;
            break;
        }
        // canonical order: the running thread first if still enabled, then ascending ids
        if let Some(c) = current {
            if let Some(pos) = enabled.iter().position(|&x| x == c) {
                enabled.remove(pos);
                enabled.insert(0, c);
            }
        }
        let current_enabled = current.is_some_and(|c| enabled.first() == Some(&c));
        let pos = ex.points.len();
        let killable: Vec<usize> = if opts.allow_kill && ex.killed.is_none() { alive.clone() } else { Vec::new() };
        let choice: u8 = if pos < opts.prefix.len() {
            let c = opts.prefix[pos];
            if (c < KILL_BASE && c as usize >= enabled.len()) || (c >= KILL_BASE && !killable.contains(&((c - KILL_BASE) as usize))) {
                machinery_error(format!("schedule replay diverged at point {pos}: choice {c} but enabled={enabled:?} killable={killable:?}"));
            }
            c
        } else {
            0
        };
        ex.points.push(PointRec { enabled: enabled.clone(), chosen: choice, current_enabled, preemptions_before: preemptions, killable: killable.clone() });
        ex.choices.push(choice);
        if choice >= KILL_BASE {
            let i = (choice - KILL_BASE) as usize;
            ex.kill_pre_tree = Some(snapshot_hub(&env.root));
            let _ = srv[i].child.kill();
            let _ = srv[i].child.wait();
            srv[i].parked = Parked::Exited;
            srv[i].killed = true;
            ex.killed = Some(i);
            ex.labels.push(format!("KILL {i}"));
            if lock_holder == Some(i) {
                lock_holder = None;
            }
            step_no += 1;
            continue;
        }
        let t = enabled[choice as usize];
        if current_enabled && choice != 0 {
            preemptions += 1;
        }
        current = Some(t);
        step_no += 1;
        // ── one step of thread t ──
        let s = &mut srv[t];
        let label;
        match s.parked.clone() {
            Parked::WantInput if ext => {
                // wait until the free-running client is blocked waiting for a reply (or has exited): then
                // everything it will send before that reply is already in the pipe and the read is deterministic
                quiesce(s.child.id());
                label = format!("{t}: server reads its client's next bytes");
            }
            Parked::WantInput if !s.hello_sent => {
                let mut hello = crate::wire::MAGIC.to_vec();
                hello.extend(frame_of(&Request::Hello { version: 1 }));
                if let Some(w) = s.stdin.as_mut() {
                    let _ = w.write_all(&hello);
                    let _ = w.flush();
                }
                s.hello_sent = true;
                s.hello_pending = true;
                label = format!("{t}: send prologue");
            }
            Parked::WantInput if s.hello_pending && stdin_unread(s.child.id()) > 0 => {
                label = format!("{t}: read buffered input");
            }
            Parked::WantInput => {
                if s.stdin.is_some() && !s.pending_pieces.is_empty() && stdin_unread(s.child.id()) > 0 {
                    // bytes delivered earlier are still in the pipe: this read consumes them first
                    label = format!("{t}: read buffered input");
                } else if let Some(piece) = (!s.pending_pieces.is_empty()).then(|| s.pending_pieces.remove(0)) {
                    if let Some(w) = s.stdin.as_mut() {
                        let _ = w.write_all(&piece);
                        let _ = w.flush();
                    }
                    label = format!("{t}: deliver {} content byte(s)", piece.len());
                } else if s.stdin.is_some() && s.awaiting.is_none() && s.next_op < sys.programs[t].len() {
                    let op = sys.programs[t][s.next_op].clone();
                    let resolve = |e: &Exp, path: &str, s: &Srv| -> Option<Hash> {
                        match e {
                            Exp::Absent => None,
                            Exp::HashOf(b) => Some(h(b)),
                            Exp::Listed => s.last_list.as_ref().and_then(|m| m.get(path).copied()),
                            Exp::Raw(x) => *x,
                        }
                    };
                    let mut expected = None;
                    let bytes = match &op {
                        Op::List => frame_of(&Request::List),
                        Op::Get { path } => frame_of(&Request::Get { path: path.clone() }),
                        Op::Delete { path, expected: e } => {
                            expected = resolve(e, path, s);
                            frame_of(&Request::Delete { path: path.clone(), expected })
                        }
                        Op::Put { path, expected: e, content, pieces, declared_hash, declared_len, extra_bytes } => {
                            expected = resolve(e, path, s);
                            let mut all = content.clone();
                            all.extend_from_slice(extra_bytes);
                            let np = (*pieces).max(1).min(all.len().max(1));
                            let chunk = all.len().div_ceil(np).max(1);
                            s.pending_pieces = all.chunks(chunk).map(<[u8]>::to_vec).collect();
                            frame_of(&Request::Put { path: path.clone(), expected, len: declared_len.unwrap_or(content.len() as u64), hash: declared_hash.unwrap_or_else(|| h(content)) })
                        }
                    };
                    // a request frame larger than the pipe is delivered like content: in pieces, one per read
                    let mut chunks: Vec<Vec<u8>> = bytes.chunks(32_768).map(<[u8]>::to_vec).collect();
                    let first = if chunks.is_empty() { Vec::new() } else { chunks.remove(0) };
                    if !chunks.is_empty() {
                        chunks.append(&mut s.pending_pieces);
                        s.pending_pieces = chunks;
                    }
                    if let Some(w) = s.stdin.as_mut() {
                        let _ = w.write_all(&first);
                        let _ = w.flush();
                    }
                    label = format!("{t}: send {}", op_label(&op));
                    op_index[t].push(ex.ops.len());
                    ex.ops.push(OpRec { client: t, op, expected, inv: step_no, resp: None, reply: None });
                    s.awaiting = Some(s.next_op);
                    s.next_op += 1;
                } else if s.stdin.is_some() && stdin_unread(s.child.id()) > 0 {
                    // bytes delivered earlier are still in the pipe (the server reads in smaller units than
                    // they were sent in): this read just consumes them
                    label = format!("{t}: read buffered input");
                } else {
                    // nothing more to say (or the server reads while a reply is outstanding): close the stream
                    s.stdin = None;
                    label = format!("{t}: close input");
                }
            }
            Parked::At(call, p1, p2) => {
                ex.calls.push((t, call.clone(), unesc_path(&p1), unesc_path(&p2)));
                label = format!("{t}: {call} {}{}", norm_name(p1.rsplit('/').next().unwrap_or("")), if p2 != "-" { format!(" -> {}", norm_name(p2.rsplit('/').next().unwrap_or(""))) } else { String::new() });
            }
            Parked::Blocked => label = format!("{t}: retry lock"),
            Parked::Exited => label = format!("{t}: (exited)"),
        }
        ex.labels.push(label);
        let was_blocked = s.parked == Parked::Blocked;
        s.go();
        let dones = s.wait_parked();
        let still_blocked = was_blocked && s.parked == Parked::Blocked;
        for (u, f) in retry_failed.iter_mut().enumerate() {
            *f = u == t && still_blocked;
        }
        for d in &dones {
            if d.starts_with("DONE flock 0") {
                lock_holder = Some(t);
            } else if d.starts_with("DONE funlock") {
                lock_holder = None;
            }
        }
        if s.parked == Parked::Exited && lock_holder == Some(t) {
            lock_holder = None;
        }
        // replies written during this step
        s.drain_stdout();
        let (rs, upto) = parse_replies(&s.outbuf, s.parsed_upto);
        s.parsed_upto = upto;
        for r in rs {
            match r {
                Err(e) => ex.reply_errors.push(format!("client {t}: {e}")),
                Ok(Reply::Hello) if s.hello_pending => {
                    s.hello_pending = false;
                }
                Ok(rep) => {
                    if let Reply::Fingerprints(m) = &rep {
                        s.last_list = Some(m.clone());
                    }
                    let k = s.replies_seen;
                    s.replies_seen += 1;
                    if let Some(&oi) = op_index[t].get(k) {
                        ex.ops[oi].resp = Some(step_no);
                        ex.ops[oi].reply = Some(rep);
                    } else {
                        ex.reply_errors.push(format!("client {t}: unsolicited reply {rep:?}"));
                    }
                    s.awaiting = None;
                }
            }
        }
        // system state after this step: hub tree (staging names normalised) + how far each server has got
        progress[t] += 1;
        let snap = snapshot_hub(&env.root);
        {
            use std::hash::{Hash as _, Hasher};
            let mut hh = std::collections::hash_map::DefaultHasher::new();
            for (p, b) in &snap {
                norm_name(p).hash(&mut hh);
                b.hash(&mut hh);
            }
            progress.hash(&mut hh);
            lock_holder.hash(&mut hh);
            ex.state_keys.push(hh.finish());
        }
        // C10: observe the hub after every step
        if let Some(f) = opts.instant {
            if ex.instant_violation.is_none() {
                if let Some((k, m)) = f(&snap) {
                    ex.instant_violation = Some((k, format!("after step {step_no} ({}): {m}", ex.labels.last().cloned().unwrap_or_default())));
                }
            }
        }
        if step_no > 5000 {
            machinery_error(format!("execution exceeded 5000 steps; last steps: {:?}", ex.labels.iter().rev().take(24).collect::<Vec<_>>()));
        }
    }
    for (i, s) in srv.iter_mut().enumerate() {
        s.stdin = None;
        if !s.killed {
            if ex.deadlock {
                let _ = s.child.kill();
            }
            if let Ok(st) = s.child.wait() {
                ex.exit_codes[i] = st.code();
                ex.signals[i] = st.signal();
            }
            s.drain_stdout();
        } else {
            ex.signals[i] = Some(libc::SIGKILL);
        }
    }
    if ext {
        for i in 0..n {
            ex.ext.push(ExtResult { code: ex.exit_codes[i], stdout: std::fs::read_to_string(env.sc.path(&format!("client{i}.out"))).unwrap_or_default(), stderr: std::fs::read_to_string(env.sc.path(&format!("client{i}.err"))).unwrap_or_default() });
        }
    }
    ex.steps = step_no;
    ex.final_tree = snapshot_hub(&env.root);
    ex
}

/// Wait until process `pid`'s main thread is blocked in read(2) on an EMPTY pipe (it has consumed
/// everything sent to it and waits for more), or in wait4(2), or is gone.
/// Unread bytes in the pipe that is process `pid`'s standard input.
fn stdin_unread(pid: u32) -> i32 {
    let c = std::ffi::CString::new(format!("/proc/{pid}/fd/0")).unwrap_or_default();
    let h = unsafe { libc::open(c.as_ptr(), libc::O_RDONLY | libc::O_NONBLOCK) };
    if h < 0 {
        return 0;
    }
    let mut n: libc::c_int = 0;
    let r = unsafe { libc::ioctl(h, libc::FIONREAD, &mut n) };
    unsafe { libc::close(h) };
    if r == 0 {
        n
    } else {
        0
    }
}

fn quiesce(pid: u32) {
    let start = std::time::Instant::now();
    loop {
        match std::fs::read_to_string(format!("/proc/{pid}/syscall")) {
            Err(_) => return,
            Ok(s) => {
                let mut it = s.split_whitespace();
                let nr = it.next().unwrap_or("");
                if nr == "61" || nr == "247" {
                    return;
                }
                if nr == "0" {
                    let fd = it.next().and_then(|a| u64::from_str_radix(a.trim_start_matches("0x"), 16).ok()).unwrap_or(u64::MAX);
                    let c = std::ffi::CString::new(format!("/proc/{pid}/fd/{fd}")).unwrap_or_default();
                    let h = unsafe { libc::open(c.as_ptr(), libc::O_RDONLY | libc::O_NONBLOCK) };
                    if h >= 0 {
                        let mut n: libc::c_int = -1;
                        let r = unsafe { libc::ioctl(h, libc::FIONREAD, &mut n) };
                        unsafe { libc::close(h) };
                        if r == 0 && n == 0 {
                            // still the same blocked read a moment later?
                            std::thread::sleep(std::time::Duration::from_micros(100));
                            if std::fs::read_to_string(format!("/proc/{pid}/syscall")).map_or(true, |t| t == s) {
                                return;
                            }
                        }
                    }
                }
            }
        }
        if let Ok(st) = std::fs::read_to_string(format!("/proc/{pid}/stat")) {
            if st.rsplit(") ").next().is_some_and(|r| r.starts_with('Z')) {
                return;
            }
        }
        if start.elapsed().as_secs() > 8 {
            machinery_error(format!("client {pid} did not become quiescent"));
        }
        std::thread::sleep(std::time::Duration::from_micros(100));
    }
}

fn unesc_path(s: &str) -> String {
    if s == "-" {
        return String::new();
    }
    let b = s.as_bytes();
    let mut out = Vec::new();
    let mut i = 0;
    while i < b.len() {
        if b[i] == b'\\' && i + 3 < b.len() && b[i + 1] == b'x' {
            if let Ok(v) = u8::from_str_radix(&s[i + 2..i + 4], 16) {
                out.push(v);
                i += 4;
                continue;
            }
        }
        out.push(b[i]);
        i += 1;
    }
    String::from_utf8_lossy(&out).into_owned()
}

/// Staging names carry the server's pid: normalise them so that labels are comparable across runs.
pub fn norm_name(s: &str) -> String {
    if let Some(i) = s.find(".copia-tmp") {
        let head = &s[..i];
        if let Some(j) = head.rfind('.') {
            if j + 1 < head.len() && head[j + 1..].bytes().all(|b| b.is_ascii_digit()) {
                return format!("{}.<pid>{}", &head[..j], &s[i..]);
            }
        }
    }
    s.to_string()
}

pub fn op_label(op: &Op) -> String {
    match op {
        Op::List => "List".into(),
        Op::Get { path } => format!("Get({path})"),
        Op::Delete { path, expected } => format!("Delete({path}, expected={})", exp_label(expected)),
        Op::Put { path, expected, content, pieces, .. } => format!("Put({path}, expected={}, {:?}{})", exp_label(expected), String::from_utf8_lossy(content), if *pieces > 1 { format!(" in {pieces} pieces") } else { String::new() }),
    }
}
fn exp_label(e: &Exp) -> String {
    match e {
        Exp::Absent => "absent".into(),
        Exp::HashOf(b) => format!("h({:?})", String::from_utf8_lossy(b)),
        Exp::Listed => "listed".into(),
        Exp::Raw(x) => format!("{:?}", x.map(|v| short(&v))),
    }
}

// ───────────────────────── CHESS exploration ─────────────────────────

/// Wall-clock budget of ONE explored system (a change that makes every schedule slow must still end in a verdict).
pub static EXPLORE_BUDGET_MS: AtomicU64 = AtomicU64::new(120_000);

pub struct ExploreOut {
    pub schedules: u64,
    pub steps: u64,
    pub violations: Vec<Violation>,
    pub outcomes: BTreeSet<String>,
    pub max_points: usize,
    /// distinct (hub tree, per-server progress, lock holder) states seen across all schedules
    pub distinct_states: u64,
    /// the schedule cap or the wall-clock budget stopped the exploration before the work list was empty
    pub stopped_early: bool,
}

/// Explore every schedule of `sys` with at most `bound` preemptions (and at most one kill if allowed).
/// `judge` evaluates a complete execution.
pub fn explore(
    envs: &[Mutex<WorkerEnv>],
    sys: &System,
    bound: u32,
    allow_kill: bool,
    instant: Option<&(dyn Fn(&Files) -> Option<(String, String)> + Sync)>,
    judge: &(dyn Fn(&Exec) -> Vec<Violation> + Sync),
    outcome_of: &(dyn Fn(&Exec) -> String + Sync),
    max_schedules: u64,
) -> ExploreOut {
    let queue: Mutex<Vec<Vec<u8>>> = Mutex::new(vec![Vec::new()]);
    let started = std::time::Instant::now();
    let stopped = AtomicU64::new(0);
    let busy = AtomicU64::new(0);
    let schedules = AtomicU64::new(0);
    let steps = AtomicU64::new(0);
    let viols: Mutex<Vec<Violation>> = Mutex::new(Vec::new());
    let outcomes: Mutex<BTreeSet<String>> = Mutex::new(BTreeSet::new());
    let maxp = AtomicU64::new(0);
    let seen_states: Mutex<std::collections::HashSet<u64>> = Mutex::new(std::collections::HashSet::new());
    std::thread::scope(|sc| {
        for env in envs {
            sc.spawn(|| {
                let env = env.lock().unwrap_or_else(|e| e.into_inner());
                loop {
                    let job = {
                        let mut q = queue.lock().unwrap_or_else(|e| e.into_inner());
                        let j = q.pop();
                        if j.is_some() {
                            busy.fetch_add(1, Ordering::SeqCst);
                        }
                        j
                    };
                    let Some(prefix) = job else {
                        if busy.load(Ordering::SeqCst) == 0 {
                            break;
                        }
                        std::thread::sleep(std::time::Duration::from_micros(200));
                        continue;
                    };
                    if schedules.load(Ordering::Relaxed) >= max_schedules || started.elapsed().as_millis() as u64 > EXPLORE_BUDGET_MS.load(Ordering::Relaxed) {
                        // schedule cap or wall-clock budget of this system reached: what was executed is still judged
                        stopped.store(1, Ordering::Relaxed);
                        busy.fetch_sub(1, Ordering::SeqCst);
                        continue;
                    }
                    let ex = run_schedule(&env, sys, &RunOpts { knobs: Knobs::default(), prefix: &prefix, allow_kill, instant });
                    schedules.fetch_add(1, Ordering::Relaxed);
                    steps.fetch_add(ex.steps as u64, Ordering::Relaxed);
                    maxp.fetch_max(ex.points.len() as u64, Ordering::Relaxed);
                    if let Ok(mut o) = outcomes.lock() {
                        o.insert(outcome_of(&ex));
                    }
                    if let Ok(mut g) = seen_states.lock() {
                        g.extend(ex.state_keys.iter().copied());
                    }
                    let vs = judge(&ex);
                    let violated = !vs.is_empty();
                    if violated {
                        if let Ok(mut g) = viols.lock() {
                            g.extend(vs);
                        }
                    }
                    // children: deviate at every point at or after the prefix
                    let mut kids = Vec::new();
                    for i in prefix.len()..ex.points.len() {
                        let p = &ex.points[i];
                        for alt in 1..p.enabled.len() {
                            let cost = p.preemptions_before + u32::from(p.current_enabled);
                            if cost <= bound {
                                let mut c = ex.choices[..i].to_vec();
                                c.push(alt as u8);
                                kids.push(c);
                            }
                        }
                        for &k in &p.killable {
                            let mut c = ex.choices[..i].to_vec();
                            c.push(KILL_BASE + k as u8);
                            kids.push(c);
                        }
                    }
                    {
                        let mut q = queue.lock().unwrap_or_else(|e| e.into_inner());
                        q.extend(kids);
                    }
                    busy.fetch_sub(1, Ordering::SeqCst);
                }
            });
        }
    });
    ExploreOut { schedules: schedules.load(Ordering::Relaxed), steps: steps.load(Ordering::Relaxed), violations: viols.into_inner().unwrap_or_default(), outcomes: outcomes.into_inner().unwrap_or_default(), max_points: maxp.load(Ordering::Relaxed) as usize, distinct_states: seen_states.into_inner().map(|g| g.len() as u64).unwrap_or(0), stopped_early: stopped.load(Ordering::Relaxed) != 0 }
}

// ───────────────────────── sequential reference hub + linearizability ─────────────────────────

#[derive(Clone, Debug)]
enum LOp {
    Real(usize),               // index into ops
    ListRead(usize, String),   // per-path read split out of List op #
}

thread_local! {
    /// Fault sessions only: an operation answered with an error reply is a no-op of the reference hub
    /// (the environment failed under it); everywhere else an error reply to a legal write is unexplainable.
    pub static ERRORS_ARE_NOOPS: std::cell::Cell<bool> = const { std::cell::Cell::new(false) };
}

/// Key prefix of a conflict-copy whose NAME the reference hub leaves open (`<prefix><n>\0<path>`): it must be found in
/// the real tree under some name starting with `<path>.conflict-`.
const FLOAT: &str = "\u{0}float:";

/// Does the real final tree equal the reference state, with open-named conflict-copies matched by prefix + content?
fn final_matches(state: &Files, final_tree: &Files) -> bool {
    let mut fin = live(final_tree);
    for (k, v) in live(state).iter().filter(|(k, _)| !k.starts_with(FLOAT)) {
        if fin.get(k) != Some(v) {
            return false;
        }
        fin.remove(k);
    }
    for (k, v) in state.iter().filter(|(k, _)| k.starts_with(FLOAT)) {
        let path = k.rsplit('\u{0}').next().unwrap_or("");
        let pre = format!("{path}.conflict-");
        let Some(hit) = fin.iter().find(|(q, b)| q.starts_with(&pre) && *b == v).map(|(q, _)| q.clone()) else { return false };
        fin.remove(&hit);
    }
    fin.is_empty()
}

/// In the flat reference hub a path "is a directory" when some live file lives beneath it.
fn ref_is_dir(state: &Files, path: &str) -> bool {
    let pre = format!("{path}/");
    state.keys().any(|k| k.starts_with(&pre) && !is_staging(k))
}

/// The file a request path names: `.` components and repeated separators do not matter.
pub fn canon_path(p: &str) -> String {
    p.split('/').filter(|c| !c.is_empty() && *c != ".").collect::<Vec<_>>().join("/")
}

fn ref_apply(state: &mut Files, rec: &OpRec) -> Reply {
    // aliases of one file (`./f`, `d//x`) are one key of the reference hub
    let canon_op = match &rec.op {
        Op::Put { path, expected, content, pieces, declared_hash, declared_len, extra_bytes } => Op::Put { path: canon_path(path), expected: expected.clone(), content: content.clone(), pieces: *pieces, declared_hash: *declared_hash, declared_len: *declared_len, extra_bytes: extra_bytes.clone() },
        Op::Delete { path, expected } => Op::Delete { path: canon_path(path), expected: expected.clone() },
        Op::Get { path } => Op::Get { path: canon_path(path) },
        Op::List => Op::List,
    };
    match &canon_op {
        Op::Put { path, content, declared_hash, declared_len, .. } => {
            // only well-formed Puts take part (malformed ones are C10's)
            let _ = (declared_hash, declared_len);
            // a write can never become the live content of a path that is a directory: the only reply
            // consistent with "acknowledged as committed = live" is an error, with no effect
            // (a stale write to such a path still does not commit and keeps its bytes in a conflict-copy)
            if ref_is_dir(state, path) && rec.expected.is_none() {
                return Reply::Error(String::new());
            }
            let cur = state.get(path).map(|b| h(b));
            if cur == rec.expected {
                state.insert(path.clone(), content.clone());
                Reply::PutResult { committed: true, current: Some(h(content)) }
            } else {
                let cn = format!("{path}.conflict-{}", short(&h(content)));
                match state.get(&cn) {
                    // the natural name is taken by OTHER content (somebody committed to that very path): neither may
                    // vanish, so the copy lives under some other name next to the path — the model leaves the name open
                    Some(other) if other != content => {
                        // (the same bytes kept earlier under an open name are not kept twice)
                        let suffix = format!("\u{0}{path}");
                        if !state.iter().any(|(k, v)| k.starts_with(FLOAT) && k.ends_with(&suffix) && v == content) {
                            let n = state.keys().filter(|k| k.starts_with(FLOAT)).count();
                            state.insert(format!("{FLOAT}{n}{suffix}"), content.clone());
                        }
                    }
                    _ => {
                        state.insert(cn, content.clone());
                    }
                }
                Reply::PutResult { committed: false, current: cur }
            }
        }
        Op::Delete { path, .. } => {
            let cur = state.get(path).map(|b| h(b));
            if cur == rec.expected {
                state.remove(path);
                Reply::DeleteResult { deleted: true, current: None }
            } else {
                Reply::DeleteResult { deleted: false, current: cur }
            }
        }
        Op::Get { path } => match state.get(path) {
            Some(b) => Reply::Content { len: b.len() as u64, hash: h(b), bytes: b.clone() },
            None => Reply::Error(String::new()),
        },
        Op::List => Reply::Fingerprints(state.iter().filter(|(k, _)| !k.starts_with(FLOAT)).map(|(k, v)| (k.clone(), h(v))).collect()),
    }
}

fn clean_reply(r: &Reply) -> Reply {
    match r {
        Reply::Fingerprints(m) => Reply::Fingerprints(m.iter().filter(|(k, _)| !is_staging(k)).map(|(k, v)| (k.clone(), *v)).collect()),
        // error replies are compared by kind, not by message
        Reply::Error(_) => Reply::Error(String::new()),
        x => x.clone(),
    }
}

/// Brute-force linearizability: is there a total order of the completed operations, consistent
/// with real time (a before b when a's reply was observed before b was sent), whose sequential
/// replies equal the observed ones and whose final state equals `final_tree`?
/// With `split_lists`, each List is replaced by independent per-path reads inside its interval.
pub fn linearizable(init: &Files, ops: &[OpRec], final_tree: &Files, split_lists: bool) -> bool {
    let mut items: Vec<(LOp, usize, usize)> = Vec::new(); // (op, inv, resp)
    let mut universe: BTreeSet<String> = init.keys().cloned().collect();
    for o in ops {
        match &o.op {
            Op::Put { path, content, .. } => {
                universe.insert(canon_path(path));
                universe.insert(format!("{}.conflict-{}", canon_path(path), short(&h(content))));
            }
            Op::Delete { path, .. } | Op::Get { path } => {
                universe.insert(canon_path(path));
            }
            Op::List => {}
        }
    }
    for (i, o) in ops.iter().enumerate() {
        let Some(resp) = o.resp else { continue };
        if split_lists && o.op == Op::List {
            for p in &universe {
                items.push((LOp::ListRead(i, p.clone()), o.inv, resp));
            }
        } else {
            items.push((LOp::Real(i), o.inv, resp));
        }
    }
    // operations without a reply (killed / still pending) may or may not have taken effect
    let pending: Vec<usize> = ops.iter().enumerate().filter(|(_, o)| o.resp.is_none()).map(|(i, _)| i).collect();
    for mask in 0..(1u32 << pending.len().min(4)) {
        let mut its = items.clone();
        for (b, &pi) in pending.iter().enumerate().take(4) {
            if mask & (1 << b) != 0 {
                its.push((LOp::Real(pi), ops[pi].inv, usize::MAX));
            }
        }
        let n = its.len();
        let mut used = vec![false; n];
        if dfs(init.clone(), &its, ops, &mut used, 0, final_tree) {
            return true;
        }
    }
    false
}

fn dfs(state: Files, its: &[(LOp, usize, usize)], ops: &[OpRec], used: &mut Vec<bool>, done: usize, final_tree: &Files) -> bool {
    if done == its.len() {
        return final_matches(&state, final_tree);
    }
    for i in 0..its.len() {
        if used[i] {
            continue;
        }
        // real-time order: i may go next only if no unused j finished before i started
        if (0..its.len()).any(|j| !used[j] && j != i && its[j].2 < its[i].1) {
            continue;
        }
        let mut st = state.clone();
        let ok = match &its[i].0 {
            LOp::Real(oi) => {
                let delete_of_dir = matches!(&ops[*oi].op, Op::Delete { path, .. } if ref_is_dir(&st, path));
                if ERRORS_ARE_NOOPS.with(std::cell::Cell::get) && matches!(ops[*oi].reply, Some(Reply::Error(_))) {
                    true // refused because the environment failed: no effect
                } else if delete_of_dir && matches!(ops[*oi].reply, Some(Reply::Error(_))) {
                    true // a directory cannot be deleted as a file: refusing is as good as "nothing there"
                } else {
                    let want = ref_apply(&mut st, &ops[*oi]);
                    match &ops[*oi].reply {
                        None => true, // no reply observed (killed): only the effect counts
                        Some(got) => clean_reply(got) == want,
                    }
                }
            }
            LOp::ListRead(oi, p) => {
                let listed = match &ops[*oi].reply {
                    Some(Reply::Fingerprints(m)) => m.get(p).copied(),
                    _ => return false,
                };
                listed == st.get(p).map(|b| h(b))
            }
        };
        if ok {
            used[i] = true;
            if dfs(st, its, ops, used, done + 1, final_tree) {
                used[i] = false;
                return true;
            }
            used[i] = false;
        }
    }
    false
}

pub fn history_json(ex: &Exec) -> Value {
    json!({
        "schedule": ex.choices,
        "steps": ex.labels,
        "operations": ex.ops.iter().map(|o| json!({"client": o.client, "op": op_label(&o.op), "sent_at_step": o.inv, "reply_at_step": o.resp, "reply": o.reply.as_ref().map(reply_label)})).collect::<Vec<_>>(),
        "final_tree": ex.final_tree.iter().map(|(k, v)| (k.clone(), json!(String::from_utf8_lossy(v)))).collect::<serde_json::Map<_, _>>(),
    })
}
pub fn reply_label(r: &Reply) -> String {
    match r {
        Reply::PutResult { committed, current } => format!("PutResult{{committed:{committed}, current:{:?}}}", current.map(|c| short(&c))),
        Reply::DeleteResult { deleted, current } => format!("DeleteResult{{deleted:{deleted}, current:{:?}}}", current.map(|c| short(&c))),
        Reply::Content { len, hash, bytes } => format!("Content{{len:{len}, hash:{}, bytes:{:?}}}", short(hash), String::from_utf8_lossy(bytes)),
        Reply::Fingerprints(m) => format!("Fingerprints{:?}", m.iter().map(|(k, v)| (k.clone(), short(v))).collect::<Vec<_>>()),
        Reply::Error(s) => format!("Error({s:?})"),
        Reply::Hello => "Hello".into(),
    }
}
