//! C11 — a hub client can never reach outside the served directory (every path-taking libc
//! call of a real `copia serve` observed through the interposer, path-string grammar × request kind).
//! C12 — the hub's wire input is handled totally, boundedly and in step.

use crate::common::*;
use crate::e4::*;
use crate::wire::Request;
use rayon::prelude::*;
use serde_json::{json, Value};
use std::collections::BTreeSet;
use std::io::{Read, Write};
use std::path::{Path, PathBuf};
use std::sync::atomic::{AtomicU64, Ordering};
use std::sync::Mutex;

// ═════════════════════════ C11 ═════════════════════════

fn path_strings(thorough: bool) -> Vec<String> {
    let long = "L".repeat(300);
    // on a Unix hub a backslash is an ordinary byte of a file name
    let comps: Vec<&str> = vec!["..", ".", "", "a", "a..b", "..a", "...", &long, "..\\..\\esc", "\\abs"];
    let mut out: BTreeSet<String> = BTreeSet::new();
    let maxn = 3;
    let mut seqs: Vec<Vec<usize>> = Vec::new();
    for n in 1..=maxn {
        for idx in 0..comps.len().pow(n as u32) {
            let mut k = idx;
            let s: Vec<usize> = (0..n).map(|_| { let x = k % comps.len(); k /= comps.len(); x }).collect();
            // quick: 3-component strings only when they contain a `..` somewhere (the interesting class)
            if !thorough && n == 3 && !s.iter().any(|&i| comps[i] == "..") {
                continue;
            }
            // the two backslash names only alone or as one of two components (keeps the quick set small)
            if n == 3 && s.iter().any(|&i| comps[i].contains('\\')) {
                continue;
            }
            seqs.push(s);
        }
    }
    for s in seqs {
        let nsep = s.len() - 1;
        for sepmask in 0..(1usize << nsep) {
            let mut body = String::new();
            for (i, &c) in s.iter().enumerate() {
                if i > 0 {
                    body.push_str(if sepmask & (1 << (i - 1)) != 0 { "//" } else { "/" });
                }
                body.push_str(comps[c]);
            }
            for lead in ["", "/"] {
                for trail in ["", "/"] {
                    out.insert(format!("{lead}{body}{trail}"));
                }
            }
        }
    }
    out.into_iter().collect()
}

fn must_refuse(p: &str) -> bool {
    p.starts_with('/') || p.split('/').any(|c| c == "..")
}

/// Lexical normalisation of an absolute path ("." and ".." resolved textually).
fn lexical(p: &str) -> String {
    let mut parts: Vec<&str> = Vec::new();
    for c in p.split('/') {
        match c {
            "" | "." => {}
            ".." => {
                parts.pop();
            }
            x => parts.push(x),
        }
    }
    format!("/{}", parts.join("/"))
}

fn under(p: &str, root: &str) -> bool {
    p == root || p.starts_with(&format!("{root}/"))
}

fn deepest_existing_real(p: &str) -> Option<String> {
    let mut cur = PathBuf::from(p);
    loop {
        if let Ok(r) = std::fs::canonicalize(&cur) {
            return Some(r.to_string_lossy().into_owned());
        }
        if !cur.pop() {
            return None;
        }
    }
}

fn probe_suffix() -> Vec<Op> {
    vec![put("ok", Exp::Absent, b"k"), Op::Get { path: "ok".into() }, Op::List]
}

fn outside_snapshot(base: &Path, hub: &Path) -> Files {
    crate::e3::snapshot_dir(base).into_iter().filter(|(p, _)| !base.join(p).starts_with(hub) && !p.ends_with("ctl.sock")).collect()
}

fn dir_set(root: &Path) -> BTreeSet<String> {
    let mut out = BTreeSet::new();
    let mut st = vec![root.to_path_buf()];
    while let Some(d) = st.pop() {
        if let Ok(rd) = std::fs::read_dir(&d) {
            for e in rd.flatten() {
                if e.path().is_dir() {
                    let rel = e.path().strip_prefix(root).map(|p| p.to_string_lossy().into_owned()).unwrap_or_default();
                    if rel != ".copia" {
                        out.insert(rel);
                    }
                    st.push(e.path());
                }
            }
        }
    }
    out
}

fn c11_session(env: &WorkerEnv, pstr: &str, kind: &str, baseline: &(Vec<Option<Reply>>, Files)) -> Option<Violation> {
    c11_session_multi(env, &[(kind.to_string(), pstr.to_string(), 3)], baseline)
}

/// One session: the given requests (kind, path, Put content length), then the probe suffix.
fn c11_session_multi(env: &WorkerEnv, reqs: &[(String, String, usize)], baseline: &(Vec<Option<Reply>>, Files)) -> Option<Violation> {
    let mut prog = Vec::new();
    for (kind, pstr, clen) in reqs {
        prog.push(match kind.as_str() {
            "Get" => Op::Get { path: pstr.clone() },
            "Delete" => Op::Delete { path: pstr.clone(), expected: Exp::Absent },
            _ => {
                let content: Vec<u8> = (0..*clen).map(|i| b'a' + (i % 23) as u8).collect();
                let mut op = put(pstr, Exp::Absent, &content);
                if let Op::Put { pieces, .. } = &mut op {
                    *pieces = clen.div_ceil(32_768).max(1);
                }
                op
            }
        });
    }
    let nreq = reqs.len();
    let show = |p: &str| if p.len() > 80 { format!("{:?}… ({} bytes)", &p[..40], p.len()) } else { format!("{p:?}") };
    let pstr: &str = &reqs.iter().map(|r| format!("{} {}{}", r.0, show(&r.1), if r.2 != 3 { format!(" ({} content bytes)", r.2) } else { String::new() })).collect::<Vec<_>>().join(" ; ");
    let kind = "session";
    let all_refused = reqs.iter().all(|r| must_refuse(&r.1));
    prog.extend(probe_suffix());
    let mut init = Files::new();
    init.insert("a".into(), b"content of a".to_vec());
    init.insert("d/x".into(), b"dx".to_vec());
    let sys = System { init: init.clone(), programs: vec![prog], external: vec![], late: vec![] };
    // sentinels outside the hub: next to ROOT, in its parent's parent (scratch root) and in the server's cwd
    let base = env.sc.root.clone();
    let cwd = base.join("cwd");
    let _ = std::fs::create_dir_all(&cwd);
    let _ = std::fs::write(base.join("sentinel-next-to-root"), b"S1");
    let _ = std::fs::write(cwd.join("sentinel-in-cwd"), b"S2");
    let _ = std::fs::write(cwd.join("a"), b"decoy a in cwd");
    let before = outside_snapshot(&base, &env.root);
    let ex = run_schedule(env, &sys, &RunOpts { knobs: Knobs { shim_root: Some("/".into()), cwd: Some(cwd.clone()) }, prefix: &[], allow_kill: false, instant: None });
    let after = outside_snapshot(&base, &env.root);
    let det = if nreq == 1 && reqs[0].2 == 3 { json!({"path": reqs[0].1, "kind": reqs[0].0}) } else { json!({"requests": reqs.iter().map(|r| json!([r.0, r.1, r.2])).collect::<Vec<_>>()}) };
    let root = env.root.to_string_lossy().into_owned();
    let real_root = std::fs::canonicalize(&env.root).map(|r| r.to_string_lossy().into_owned()).unwrap_or_else(|_| root.clone());
    // (1) every path-taking call stays under ROOT
    for (_, call, p1, p2) in &ex.calls {
        for p in [p1, p2] {
            if p.is_empty() || !p.starts_with('/') {
                continue; // fd-based call on a pipe/socket/anon inode
            }
            let lx = lexical(p);
            let ok_lex = under(&lx, &root);
            let ok_real = deepest_existing_real(&lx).map_or(true, |r| under(&r, &real_root) || under(&real_root, &r));
            if !ok_lex || !ok_real {
                return Some(Violation::new("outside_root", format!("{kind} with path {pstr:?}: the server called {call}({p}) — outside the served directory {root}"), det).with("call", json!(call)));
            }
        }
    }
    if before != after {
        let changed: Vec<&String> = before.keys().chain(after.keys()).filter(|k| before.get(*k) != after.get(*k)).collect();
        return Some(Violation::new("outside_root", format!("{kind} with path {pstr:?}: entries outside the served directory changed: {changed:?}"), det));
    }
    if !ex.reply_errors.is_empty() {
        return Some(Violation::new("stream_out_of_step", format!("{kind} with path {pstr:?}: reply stream broken: {:?}", ex.reply_errors), det));
    }
    for (i, r) in reqs.iter().enumerate() {
        if must_refuse(&r.1) {
            // refused with an error reply
            match ex.ops.get(i).and_then(|o| o.reply.clone()) {
                Some(Reply::Error(_)) => {}
                other => return Some(Violation::new("not_refused", format!("{kind} with path {pstr:?}: request #{i} (absolute or with a `..` component) was answered {:?} instead of an error", other.as_ref().map(reply_label)), det)),
            }
        }
    }
    if all_refused {
        // nothing created, connection stays usable
        let probe: Vec<Option<Reply>> = ex.ops.iter().skip(nreq).map(|o| o.reply.clone()).collect();
        if probe != baseline.0 {
            return Some(Violation::new("connection_unusable", format!("{kind} with path {pstr:?}: the requests after the refused one got {:?}, a session without it gets {:?}", probe.iter().map(|r| r.as_ref().map(reply_label)).collect::<Vec<_>>(), baseline.0.iter().map(|r| r.as_ref().map(reply_label)).collect::<Vec<_>>()), det));
        }
        let dirs = dir_set(&env.root);
        if dirs != BTreeSet::from(["d".to_string()]) {
            return Some(Violation::new("refused_request_changed_tree", format!("{kind} with path {pstr:?} was refused but directories were created for it: {dirs:?}"), det));
        }
        if ex.final_tree != baseline.1 {
            return Some(Violation::new("refused_request_changed_tree", format!("{kind} with path {pstr:?}: tree after the session {:?} differs from the baseline session's {:?}", ex.final_tree.keys().collect::<Vec<_>>(), baseline.1.keys().collect::<Vec<_>>()), det));
        }
        if ex.exit_codes[0] != Some(0) {
            return Some(Violation::new("connection_unusable", format!("{kind} with path {pstr:?}: server exit {:?}", ex.exit_codes[0]), det));
        }
    }
    None
}

/// Sessions with TWO requests before the probe (state carried from one request to the next), and refused Puts
/// whose content is larger than any buffer the server might drain it with.
fn c11_multi_jobs(base: &Path, thorough: bool) -> Vec<Vec<(String, String, usize)>> {
    let abs = base.join("cwd").to_string_lossy().into_owned();
    let mut s: Vec<String> = vec!["../cwd/n1".into(), "../cwd/n2".into(), format!("{abs}/n1"), format!("{abs}/n2"), "d/../../cwd/n1".into(), "d/n1".into(), "d/n2".into(), "../n1".into(), "a".into()];
    if thorough {
        s.extend(["../cwd/sub/n1".to_string(), "./d/n3".into(), "d//n1".into(), format!("{abs}/../cwd/n2")]);
    }
    let kinds: Vec<(&str, &str)> = if thorough { vec![("Put", "Put"), ("Put", "Get"), ("Get", "Put"), ("Delete", "Put"), ("Put", "Delete"), ("Get", "Delete"), ("Delete", "Delete")] } else { vec![("Put", "Put"), ("Get", "Put"), ("Put", "Delete"), ("Delete", "Put")] };
    let mut out = Vec::new();
    for (k1, k2) in &kinds {
        for p1 in &s {
            for p2 in &s {
                out.push(vec![((*k1).to_string(), p1.clone(), 3), ((*k2).to_string(), p2.clone(), 3)]);
            }
        }
    }
    // refused paths so long that the REQUEST frame is at, or just below, the 1 MiB control-frame bound (whatever the
    // server builds from the path — an error message, a log line — must still fit or be cut)
    let fits = |kind: &str, l: usize| -> bool {
        let p = "a".repeat(l);
        let n = if kind == "Get" { cbor(&Request::Get { path: p }).len() } else { cbor(&Request::Delete { path: p, expected: None }).len() };
        n <= (1 << 20)
    };
    let max_for = |kind: &str| -> usize {
        let mut l = (1usize << 20) - 128;
        while !fits(kind, l) {
            l -= 1;
        }
        while fits(kind, l + 1) {
            l += 1;
        }
        l
    };
    let max_path = max_for("Get");
    let max_del = max_for("Delete");
    let lens: Vec<usize> = if thorough { vec![max_path, max_path - 1, max_path - 13, max_path - 14, max_path - 50, max_path - 86, max_path - 87, max_path - 100, max_path - 500, 900_000] } else { vec![max_path, max_path - 14, max_path - 50, max_path - 100] };
    for l in lens {
        for kind in ["Get", "Delete"] {
            let l = if kind == "Delete" { l - (max_path - max_del) } else { l };
            out.push(vec![(kind.to_string(), format!("../{}", "a".repeat(l - 3)), 3)]);
        }
    }
    let sizes: Vec<usize> = if thorough { vec![8192, 8193, 65_536, 65_537, 262_144, 262_145, 300_000, 1_048_577] } else { vec![65_537, 262_144, 262_145, 300_000] };
    for sz in sizes {
        for p in ["../cwd/big", "/tmp/../big", "d/../../big"] {
            out.push(vec![("Put".to_string(), p.to_string(), sz)]);
            out.push(vec![("Put".to_string(), p.to_string(), sz), ("Put".to_string(), "d/after".to_string(), 3)]);
        }
    }
    out
}

pub fn run_c11(ctx: &Ctx) -> ! {
    let thorough = ctx.tier.is_thorough();
    let mut strings = path_strings(thorough);
    let mut replay_multi: Option<Vec<(String, String, usize)>> = None;
    if let Some(rp) = &ctx.replay {
        let v: Value = serde_json::from_slice(&std::fs::read(rp).unwrap_or_default()).unwrap_or(Value::Null);
        if let Some(rs) = v["detail"]["requests"].as_array() {
            replay_multi = Some(rs.iter().map(|r| (r[0].as_str().unwrap_or("Put").to_string(), r[1].as_str().unwrap_or("a").to_string(), r[2].as_u64().unwrap_or(3) as usize)).collect());
            strings = Vec::new();
        } else {
            strings = vec![v["detail"]["path"].as_str().unwrap_or("a").to_string()];
        }
    }
    let next2 = AtomicU64::new(0);
    let multi_total = AtomicU64::new(0);
    let envs: Vec<Mutex<WorkerEnv>> = (0..16).map(|i| Mutex::new(WorkerEnv::new(&format!("c11w{i}")))).collect();
    // baseline session: the probe suffix alone on an identical tree (per worker env, so paths match)
    let evals = AtomicU64::new(0);
    let refused = AtomicU64::new(0);
    let calls_seen = AtomicU64::new(0);
    let next = AtomicU64::new(0);
    let viols: Mutex<Vec<Violation>> = Mutex::new(Vec::new());
    let kinds = ["Get", "Put", "Delete"];
    std::thread::scope(|sc| {
        for env in &envs {
            sc.spawn(|| {
                let env = env.lock().unwrap_or_else(|e| e.into_inner());
                let mut init = Files::new();
                init.insert("a".into(), b"content of a".to_vec());
                init.insert("d/x".into(), b"dx".to_vec());
                let cwd = env.sc.root.join("cwd");
                let _ = std::fs::create_dir_all(&cwd);
                let bsys = System { init, programs: vec![probe_suffix()], external: vec![], late: vec![] };
                let b = run_schedule(&env, &bsys, &RunOpts { knobs: Knobs { shim_root: Some("/".into()), cwd: Some(cwd) }, prefix: &[], allow_kill: false, instant: None });
                let baseline = (b.ops.iter().map(|o| o.reply.clone()).collect::<Vec<_>>(), b.final_tree.clone());
                if baseline.0.len() != 3 || baseline.0.iter().any(Option::is_none) {
                    machinery_error(format!("C11 baseline session incomplete: {:?}", b.labels));
                }
                loop {
                    let i = next.fetch_add(1, Ordering::Relaxed) as usize;
                    if i >= strings.len() * 3 {
                        break;
                    }
                    let (p, k) = (&strings[i / 3], kinds[i % 3]);
                    evals.fetch_add(1, Ordering::Relaxed);
                    if must_refuse(p) {
                        refused.fetch_add(1, Ordering::Relaxed);
                    }
                    if let Some(v) = c11_session(&env, p, k, &baseline) {
                        if let Ok(mut g) = viols.lock() {
                            g.push(v);
                        }
                    }
                    calls_seen.fetch_add(1, Ordering::Relaxed);
                }
                if ctx.replay.is_none() || replay_multi.is_some() {
                    let jobs = match &replay_multi {
                        Some(j) => vec![j.clone()],
                        None => c11_multi_jobs(&env.sc.root, thorough),
                    };
                    multi_total.store(jobs.len() as u64, Ordering::Relaxed);
                    loop {
                        let i = next2.fetch_add(1, Ordering::Relaxed) as usize;
                        if i >= jobs.len() {
                            break;
                        }
                        evals.fetch_add(1, Ordering::Relaxed);
                        if jobs[i].iter().all(|r| must_refuse(&r.1)) {
                            refused.fetch_add(1, Ordering::Relaxed);
                        }
                        if let Some(v) = c11_session_multi(&env, &jobs[i], &baseline) {
                            if let Ok(mut g) = viols.lock() {
                                g.push(v);
                            }
                        }
                    }
                }
            });
        }
    });
    let mut violations = viols.into_inner().unwrap_or_default();
    violations.sort_by_key(|v| v.detail["path"].as_str().map_or(0, str::len));
    let mut per: std::collections::HashMap<String, usize> = Default::default();
    violations.retain(|v| {
        let c = per.entry(v.kind().to_string()).or_insert(0);
        *c += 1;
        *c <= 4
    });
    let mut rep = Report::new("exploration");
    rep.set("evaluations", evals.load(Ordering::Relaxed))
        .set("distinct_nontrivial", refused.load(Ordering::Relaxed))
        .set("path_strings", strings.len() as u64)
        .set("two_request_and_large_content_sessions", multi_total.load(Ordering::Relaxed))
        .set("rule", "path strings = every concatenation of 1..3 components from {.., ., empty, a, a..b, ..a, ..., a 300-byte name} joined by / or //, with and without a leading and a trailing slash (quick: 3-component strings only when one component is `..`), x {Get, Put with 3 content bytes, Delete}; each session = that request then Put(ok), Get(ok), List on a real `copia serve` whose EVERY path-taking libc call is announced by the interposer (VSHIM_ROOT=/); plus sessions with TWO requests before the probe (all ordered pairs over 9 path strings incl. relative and absolute names of an EXISTING directory outside the root, x 4 kind pairs) and refused Puts carrying 65 537 … 300 000 content bytes; non-trivial = the string must be refused (absolute or has a `..` component)")
        .set("samples", json!([{"path":"a/../../x","kind":"Put"},{"path":"/..a//.","kind":"Delete"},{"path":"a..b/...","kind":"Get"}]))
        .set("exhaustive", true);
    rep.assume("observation through libc-level interposition: open/openat/creat/stat*/statx/opendir/readlink/rename/unlink/mkdir/… with their path arguments made absolute against the server's cwd; the served tree contains no symlinks");
    finish(ctx, rep, violations);
}

// ═════════════════════════ C12 ═════════════════════════

const FRAME_ALLOC_BOUND: usize = (1 << 20) + 64 * 1024;

fn cbor<T: serde::Serialize>(v: &T) -> Vec<u8> {
    let mut b = Vec::new();
    ciborium::ser::into_writer(v, &mut b).unwrap_or_else(|e| machinery_error(format!("cbor: {e}")));
    b
}
fn framed(body: &[u8]) -> Vec<u8> {
    let mut v = (body.len() as u32).to_be_bytes().to_vec();
    v.extend_from_slice(body);
    v
}

/// A reader that panics when it is polled again and again at end-of-input (a spinning decoder).
struct EofGuard<'a> {
    d: &'a [u8],
    zero: usize,
}
impl Read for EofGuard<'_> {
    fn read(&mut self, buf: &mut [u8]) -> std::io::Result<usize> {
        let n = buf.len().min(self.d.len());
        buf[..n].copy_from_slice(&self.d[..n]);
        self.d = &self.d[n..];
        if n == 0 && !buf.is_empty() {
            self.zero += 1;
            if self.zero > 10_000 {
                panic!("SPIN: decoder keeps reading at end of input");
            }
        }
        Ok(n)
    }
}

fn decode_one(bytes: &[u8]) -> Option<(&'static str, String)> {
    let (r, max_single, _) = with_alloc_tracking(|| {
        catch(|| {
            let mut r = EofGuard { d: bytes, zero: 0 };
            let _ = crate::wire::read_magic(&mut r);
            let mut r2 = EofGuard { d: bytes, zero: 0 };
            for _ in 0..3 {
                match crate::wire::read_frame::<_, Request>(&mut r2) {
                    Ok(Some(_)) => {}
                    _ => break,
                }
            }
        })
    });
    match r {
        Err(p) if p.starts_with("SPIN") => Some(("decoder_spins", format!("wire decoder spins at end of input: {p}"))),
        Err(p) => Some(("panic", format!("wire decoder panicked: {p}"))),
        Ok(()) if max_single > FRAME_ALLOC_BOUND => Some(("alloc_bound", format!("control-frame decoding requested a single allocation of {max_single} bytes (bound 1 MiB)"))),
        Ok(()) => None,
    }
}

fn cbor_menu() -> Vec<(String, Vec<u8>)> {
    let mut m: Vec<(String, Vec<u8>)> = Vec::new();
    let reqs = vec![
        ("Hello", cbor(&Request::Hello { version: 1 })),
        ("List", cbor(&Request::List)),
        ("Get", cbor(&Request::Get { path: "a".into() })),
        ("Put", cbor(&Request::Put { path: "a".into(), expected: None, len: 5, hash: [7; 32] })),
        ("Delete", cbor(&Request::Delete { path: "a".into(), expected: Some([9; 32]) })),
        ("Bye", cbor(&Request::Bye)),
    ];
    for (n, b) in &reqs {
        m.push((format!("valid {n}"), b.clone()));
        for t in 0..b.len() {
            m.push((format!("{n} truncated@{t}"), b[..t].to_vec()));
        }
        let mut tr = b.clone();
        tr.extend_from_slice(&[0x00, 0xFF]);
        m.push((format!("{n} + trailing bytes"), tr));
    }
    // huge declared lengths: map (0xBB), array (0x9B), text (0x7B), bytes (0x5B) with 8-byte length
    for (name, major) in [("map", 0xBBu8), ("array", 0x9B), ("text", 0x7B), ("bytes", 0x5B)] {
        for l in [1u64 << 32, 1 << 63, u64::MAX] {
            let mut b = vec![major];
            b.extend_from_slice(&l.to_be_bytes());
            m.push((format!("{name} declaring {l}"), b.clone()));
            // inside a plausible enum wrapper {"Get": {"path": <huge text>}}
            let mut w = vec![0xA1, 0x63, b'G', b'e', b't', 0xA1, 0x64, b'p', b'a', b't', b'h'];
            w.extend_from_slice(&b);
            m.push((format!("Get.path = {name} declaring {l}"), w));
        }
    }
    for depth in [10usize, 200, 100_000] {
        m.push((format!("array nesting {depth}"), vec![0x81; depth]));
        m.push((format!("map nesting {depth}"), std::iter::repeat([0xA1u8, 0x61, b'k']).take(depth).flatten().collect()));
        m.push((format!("tag nesting {depth}"), vec![0xC1; depth]));
    }
    m.push(("indefinite array".into(), vec![0x9F, 0x01, 0x02]));
    m.push(("indefinite text".into(), vec![0x7F, 0x61, b'a']));
    m.push(("indefinite map unterminated".into(), vec![0xBF, 0x61, b'a', 0x01]));
    m.push(("wrong variant".into(), cbor(&json!({"Frobnicate": {"x": 1}}))));
    m.push(("variant as int".into(), vec![0x05]));
    m.push(("Put with len as text".into(), cbor(&json!({"Put": {"path": "a", "expected": null, "len": "5", "hash": [1, 2, 3]}}))));
    m
}

fn decoder_part(thorough: bool, evals: &AtomicU64, nontrivial: &AtomicU64) -> Vec<Violation> {
    let mut out: Vec<Violation> = Vec::new();
    // every byte string of length <= 3 over all 256 values
    let r: Vec<Violation> = (0..=255u16)
        .into_par_iter()
        .flat_map_iter(|a| {
            let a = a as u8;
            let mut o = Vec::new();
            let mut n = 0u64;
            let mut run = |b: &[u8], o: &mut Vec<Violation>| {
                n += 1;
                if o.len() >= 2 {
                    return; // enough witnesses from this shard; keep the sweep fast when something is broken
                }
                if let Some((k, m)) = decode_one(b) {
                    if o.len() < 2 {
                        o.push(Violation::new(k, format!("{m} on input {}", hex(b)), json!({"part":"decoder","bytes":hex(b)})));
                    }
                }
            };
            if a == 0 {
                run(&[], &mut o);
            }
            run(&[a], &mut o);
            for b in 0..=255u8 {
                run(&[a, b], &mut o);
                let step = if thorough { 1 } else { 1 };
                for c in (0..=255u8).step_by(step) {
                    run(&[a, b, c], &mut o);
                }
            }
            evals.fetch_add(n, Ordering::Relaxed);
            o
        })
        .collect();
    out.extend(r.into_iter().take(5));
    // every length prefix in the menu followed by every body of the CBOR menu
    let prefixes: [u32; 7] = [0, 1, (1 << 20) - 1, 1 << 20, (1 << 20) + 1, 1 << 31, u32::MAX];
    let menu = cbor_menu();
    let r: Vec<Violation> = menu
        .par_iter()
        .flat_map_iter(|(name, body)| {
            let mut o = Vec::new();
            let mut inputs: Vec<(String, Vec<u8>)> = vec![(format!("correct prefix + {name}"), framed(body))];
            for p in prefixes {
                let mut v = p.to_be_bytes().to_vec();
                v.extend_from_slice(body);
                inputs.push((format!("prefix {p} + {name}"), v));
            }
            for (n, b) in inputs {
                evals.fetch_add(1, Ordering::Relaxed);
                nontrivial.fetch_add(1, Ordering::Relaxed);
                if let Some((k, m)) = decode_one(&b) {
                    o.push(Violation::new(k, format!("{m} on {n}"), json!({"part":"decoder","name":n,"bytes":hex(&b[..b.len().min(64)])})));
                }
            }
            o
        })
        .collect();
    out.extend(r.into_iter().take(5));
    out
}

struct SessOut {
    code: Option<i32>,
    signal: Option<i32>,
    timed_out: bool,
    stdout: Vec<u8>,
    tree: Files,
    dirs: BTreeSet<String>,
}

fn list_dirs(root: &Path) -> BTreeSet<String> {
    let mut out = BTreeSet::new();
    let mut st = vec![root.to_path_buf()];
    while let Some(d) = st.pop() {
        if let Ok(rd) = std::fs::read_dir(&d) {
            for e in rd.flatten() {
                if e.path().is_dir() {
                    out.insert(e.path().strip_prefix(root).map(|p| p.to_string_lossy().into_owned()).unwrap_or_default());
                    st.push(e.path());
                }
            }
        }
    }
    out
}

fn init_hub(root: &Path) {
    let _ = std::fs::remove_dir_all(root);
    let _ = std::fs::create_dir_all(root.join("d"));
    let _ = std::fs::write(root.join("keep"), b"keep me");
    let _ = std::fs::write(root.join("d/x"), b"dx");
}

/// Feed `input` to a real `copia serve` (RLIMIT_AS = 512 MiB), close stdin, wait with a timeout.
fn serve_session(root: &Path, input: &[u8], fresh: bool) -> SessOut {
    use std::os::unix::process::{CommandExt, ExitStatusExt};
    if fresh {
        init_hub(root);
    }
    let mut cmd = std::process::Command::new(cli_bin());
    cmd.arg("serve").arg(root).env("RUST_LOG", "off").env("MALLOC_ARENA_MAX", "1").env("TOKIO_WORKER_THREADS", "1").stdin(std::process::Stdio::piped()).stdout(std::process::Stdio::piped()).stderr(std::process::Stdio::null());
    unsafe {
        cmd.pre_exec(|| {
            let lim = libc::rlimit { rlim_cur: 512 << 20, rlim_max: 512 << 20 };
            libc::setrlimit(libc::RLIMIT_AS, &lim);
            Ok(())
        });
    }
    let mut child = cmd.spawn().unwrap_or_else(|e| machinery_error(format!("spawn serve: {e}")));
    let mut stdin = child.stdin.take();
    let mut stdout = child.stdout.take().unwrap_or_else(|| machinery_error("stdout"));
    let inp = input.to_vec();
    let writer = std::thread::spawn(move || {
        if let Some(mut w) = stdin.take() {
            let _ = w.write_all(&inp);
        }
    });
    let reader = std::thread::spawn(move || {
        let mut b = Vec::new();
        let _ = stdout.read_to_end(&mut b);
        b
    });
    let start = std::time::Instant::now();
    let mut timed_out = false;
    let st = loop {
        match child.try_wait() {
            Ok(Some(st)) => break Some(st),
            Ok(None) => {
                if start.elapsed().as_secs() >= 10 {
                    timed_out = true;
                    let _ = child.kill();
                    let _ = child.wait();
                    break None;
                }
                std::thread::sleep(std::time::Duration::from_millis(1));
            }
            Err(_) => break None,
        }
    };
    let _ = writer.join();
    let out = reader.join().unwrap_or_default();
    SessOut { code: st.and_then(|s| s.code()), signal: st.and_then(|s| s.signal()), timed_out, stdout: out, tree: crate::e3::snapshot_dir(root).into_iter().filter(|(p, _)| !p.starts_with(".copia/")).collect(), dirs: list_dirs(root).into_iter().filter(|d| d != ".copia").collect() }
}

fn reference_session() -> Vec<Vec<u8>> {
    let content = b"12345";
    vec![
        crate::wire::MAGIC.to_vec(),
        framed(&cbor(&Request::Hello { version: 1 })),
        framed(&cbor(&Request::List)),
        framed(&cbor(&Request::Put { path: "a".into(), expected: None, len: 5, hash: h(content) })),
        content.to_vec(),
        framed(&cbor(&Request::Get { path: "a".into() })),
        framed(&cbor(&Request::Delete { path: "a".into(), expected: Some(h(content)) })),
        framed(&cbor(&Request::Bye)),
    ]
}

fn probe_bytes() -> Vec<u8> {
    let mut v = Vec::new();
    v.extend(framed(&cbor(&Request::Put { path: "ok".into(), expected: None, len: 1, hash: h(b"k") })));
    v.extend_from_slice(b"k");
    v.extend(framed(&cbor(&Request::Get { path: "ok".into() })));
    v.extend(framed(&cbor(&Request::List)));
    v.extend(framed(&cbor(&Request::Bye)));
    v
}

/// Child mode: run the REAL request loop (`serve::serve`, compiled into this harness from /repo) on this process's
/// stdin/stdout under the counting allocator and report the largest single allocation it made.
pub fn child_servemem(root: &str, report: &str) -> ! {
    let (r, max_single, peak) = with_alloc_tracking(|| catch(|| {
        let _ = crate::serve::serve(Path::new(root));
    }));
    let _ = std::fs::write(report, serde_json::to_vec(&json!({"max_single": max_single, "peak": peak, "panic": r.err()})).unwrap_or_default());
    std::process::exit(0);
}

/// Whole-session memory histories: frame sequences in which an earlier (legal, large) control frame precedes a
/// larger length prefix, so that any buffer reused between frames would have to grow.
fn memory_sessions(thorough: bool, evals: &AtomicU64, nontrivial: &AtomicU64) -> Vec<Violation> {
    let big_get = |n: usize| framed(&cbor(&Request::Get { path: "p".repeat(n) }));
    let firsts: Vec<usize> = if thorough { vec![0, 1000, 300_000, 524_289, 600_000, 900_000, 1_048_000] } else { vec![0, 524_289, 600_000, 1_048_000] };
    let seconds: Vec<u32> = if thorough { vec![1000, 600_001, 700_000, 1 << 20, (1 << 20) + 1, 1 << 31, u32::MAX] } else { vec![700_000, 1 << 20, (1 << 20) + 1, u32::MAX] };
    let mut cases: Vec<(String, Vec<u8>)> = Vec::new();
    for &f in &firsts {
        for &p2 in &seconds {
            for body in ["none", "full"] {
                let mut v = crate::wire::MAGIC.to_vec();
                v.extend(framed(&cbor(&Request::Hello { version: 1 })));
                if f > 0 {
                    v.extend(big_get(f));
                }
                v.extend_from_slice(&p2.to_be_bytes());
                if body == "full" && p2 <= (1 << 20) {
                    // a well-formed Get whose frame is exactly p2 bytes long
                    let mut n = p2 as usize;
                    let mut fr = big_get(n.saturating_sub(16));
                    while fr.len() - 4 != p2 as usize && n > 0 {
                        n = if fr.len() - 4 > p2 as usize { n - 1 } else { n + 1 };
                        fr = big_get(n.saturating_sub(16));
                        if n > p2 as usize + 64 {
                            break;
                        }
                    }
                    if fr.len() - 4 == p2 as usize {
                        v.extend_from_slice(&fr[4..]);
                        v.extend(framed(&cbor(&Request::Bye)));
                    }
                }
                cases.push((format!("Hello, Get with a {f}-byte path, then length prefix {p2} ({body} body)"), v));
            }
        }
    }
    let exe = std::env::current_exe().unwrap_or_else(|e| machinery_error(format!("current_exe: {e}")));
    cases
        .par_iter()
        .filter_map(|(name, input)| {
            evals.fetch_add(1, Ordering::Relaxed);
            nontrivial.fetch_add(1, Ordering::Relaxed);
            let sc = Scratch::new("c12mem");
            let root = sc.path("hub");
            init_hub(&root);
            let report = sc.path("report.json");
            let mut cmd = std::process::Command::new(&exe);
            cmd.arg("C12").arg("--child").arg("servemem").arg(&root).arg(&report).env("RUST_LOG", "off").stdin(std::process::Stdio::piped()).stdout(std::process::Stdio::piped()).stderr(std::process::Stdio::null());
            let mut child = cmd.spawn().unwrap_or_else(|e| machinery_error(format!("spawn servemem child: {e}")));
            let mut stdin = child.stdin.take();
            let mut stdout = child.stdout.take();
            let inp = input.clone();
            let wr = std::thread::spawn(move || {
                if let Some(mut w) = stdin.take() {
                    let _ = w.write_all(&inp);
                }
            });
            let rd = std::thread::spawn(move || {
                let mut b = Vec::new();
                if let Some(o) = stdout.as_mut() {
                    let _ = o.read_to_end(&mut b);
                }
            });
            let t0 = std::time::Instant::now();
            let mut timed_out = false;
            loop {
                match child.try_wait() {
                    Ok(Some(_)) => break,
                    Ok(None) if t0.elapsed().as_secs() > 20 => {
                        timed_out = true;
                        let _ = child.kill();
                        let _ = child.wait();
                        break;
                    }
                    Ok(None) => std::thread::sleep(std::time::Duration::from_millis(2)),
                    Err(_) => break,
                }
            }
            let _ = wr.join();
            let _ = rd.join();
            let det = json!({"part": "memory", "name": name});
            if timed_out {
                return Some(Violation::new("hang", format!("{name}: the request loop did not finish within 20 s of its input being closed"), det));
            }
            let rep: Value = serde_json::from_slice(&std::fs::read(&report).unwrap_or_default()).unwrap_or(Value::Null);
            let Some(ms) = rep["max_single"].as_u64() else { machinery_error(format!("servemem child wrote no report for {name}")) };
            if let Some(p) = rep["panic"].as_str() {
                return Some(Violation::new("panic", format!("{name}: the request loop panicked: {p}"), det));
            }
            if ms as usize > FRAME_ALLOC_BOUND {
                return Some(Violation::new("alloc_bound", format!("{name}: the request loop made a single allocation of {ms} bytes (bound: 1 MiB per control frame)"), det));
            }
            None
        })
        .collect::<Vec<_>>()
        .into_iter()
        .take(4)
        .collect()
}

fn server_part(thorough: bool, evals: &AtomicU64, nontrivial: &AtomicU64) -> Vec<Violation> {
    let frames = reference_session();
    let whole: Vec<u8> = frames.concat();
    let mut cases: Vec<(String, Vec<u8>, bool)> = Vec::new(); // (name, input, a valid prologue + well-formed request precedes any change)
    // every cut point
    for t in 0..=whole.len() {
        cases.push((format!("reference session cut after {t} bytes"), whole[..t].to_vec(), true));
    }
    // every frame dropped / duplicated / swapped with its neighbour
    for i in 0..frames.len() {
        let mut d = frames.clone();
        d.remove(i);
        cases.push((format!("frame {i} dropped"), d.concat(), i != 0));
        let mut d = frames.clone();
        d.insert(i, frames[i].clone());
        cases.push((format!("frame {i} duplicated"), d.concat(), true));
        if i + 1 < frames.len() {
            let mut d = frames.clone();
            d.swap(i, i + 1);
            cases.push((format!("frames {i},{} swapped", i + 1), d.concat(), i != 0));
        }
    }
    // banner text before the magic
    for banner in ["Welcome to host!\n", "COPIA", "copia1", "\n", "COPIA2"] {
        let mut v = banner.as_bytes().to_vec();
        v.extend_from_slice(&whole);
        cases.push((format!("banner {banner:?} before the magic"), v, false));
    }
    // length-prefix mutations at every frame
    let prefixes: [u32; 7] = [0, 1, (1 << 20) - 1, 1 << 20, (1 << 20) + 1, 1 << 31, u32::MAX];
    for i in 1..frames.len() {
        if i == 4 {
            continue; // raw content, no prefix
        }
        for p in prefixes {
            let mut d = frames.clone();
            d[i][..4].copy_from_slice(&p.to_be_bytes());
            cases.push((format!("frame {i} length prefix := {p}"), d.concat(), true));
        }
    }
    // a Put whose path is REFUSED, cut after every byte (the server must stop draining when its input ends)
    for bad in ["../x", "", "/abs/x"] {
        let body: Vec<u8> = (0..100u8).collect();
        let mut sess = frames[0].clone();
        sess.extend_from_slice(&frames[1]);
        sess.extend(framed(&cbor(&Request::Put { path: bad.into(), expected: None, len: body.len() as u64, hash: h(&body) })));
        let head = sess.len();
        sess.extend_from_slice(&body);
        for t in (head..sess.len()).step_by(if thorough { 1 } else { 9 }) {
            cases.push((format!("refused Put({bad:?}) with 100 content bytes, input closed after {} of them", t - head), sess[..t].to_vec(), false));
        }
    }
    // thorough: every cut point of EVERY mutated session above (drop / duplicate / swap / prefix mutation / banner)
    if thorough {
        let base: Vec<(String, Vec<u8>, bool)> = cases.iter().filter(|c| !c.0.starts_with("reference session cut")).cloned().collect();
        for (name, input, may) in base {
            for t in 0..input.len() {
                cases.push((format!("{name}, cut after {t} bytes"), input[..t].to_vec(), may));
            }
        }
    }
    // the decoder-level menu after a valid prologue
    let menu = cbor_menu();
    let step = if thorough { 1 } else { 3 };
    for (name, body) in menu.iter().step_by(step) {
        let mut v = frames[0].clone();
        v.extend_from_slice(&frames[1]);
        v.extend(framed(body));
        v.extend(probe_bytes());
        cases.push((format!("after prologue: {name}"), v, true));
    }
    let sc = Scratch::new("c12");
    let next = AtomicU64::new(0);
    let viols: Mutex<Vec<Violation>> = Mutex::new(Vec::new());
    std::thread::scope(|s| {
        for w in 0..16 {
            let root = sc.path(&format!("hub{w}"));
            let (cases, next, viols) = (&cases, &next, &viols);
            s.spawn(move || {
                init_hub(&root);
                let pristine: Files = crate::e3::snapshot_dir(&root);
                let pristine_dirs = list_dirs(&root);
                loop {
                    let i = next.fetch_add(1, Ordering::Relaxed) as usize;
                    if i >= cases.len() {
                        break;
                    }
                    let (name, input, may_change) = &cases[i];
                    evals.fetch_add(1, Ordering::Relaxed);
                    nontrivial.fetch_add(1, Ordering::Relaxed);
                    let o = serve_session(&root, input, true);
                    let det = json!({"part":"server","name":name,"input_hex":hex(&input[..input.len().min(400)])});
                    let mut bad: Option<(&str, String)> = None;
                    if o.timed_out {
                        bad = Some(("server_hangs", format!("{name}: the server did not exit within 10 s after its input was closed")));
                    } else if let Some(sg) = o.signal {
                        bad = Some(("server_crash", format!("{name}: the server was killed by signal {sg}")));
                    } else if !matches!(o.code, Some(0) | Some(1)) {
                        bad = Some(("server_crash", format!("{name}: exit status {:?}", o.code)));
                    } else if !may_change && (o.tree != pristine || o.dirs != pristine_dirs.iter().filter(|d| *d != ".copia").cloned().collect::<BTreeSet<_>>()) {
                        bad = Some(("changed_before_prologue", format!("{name}: the served tree changed although no valid prologue + well-formed request was received")));
                    }
                    if let Some((k, m)) = bad {
                        if let Ok(mut g) = viols.lock() {
                            g.push(Violation::new(k, m, det));
                        }
                    }
                }
            });
        }
    });
    let mut out = viols.into_inner().unwrap_or_default();
    // cut points strictly before the end of the prologue+first well-formed request must leave the tree untouched
    // (covered above through `may_change=false` only for banner/dropped-magic; add the explicit prefix rule)
    let prologue_len = frames[0].len() + frames[1].len() + frames[2].len() + frames[3].len() - 1;
    let root = sc.path("hubx");
    init_hub(&root);
    let pristine: Files = crate::e3::snapshot_dir(&root).into_iter().filter(|(p, _)| !p.starts_with(".copia/")).collect();
    for t in 0..prologue_len.min(whole.len()) {
        evals.fetch_add(1, Ordering::Relaxed);
        let o = serve_session(&root, &whole[..t], true);
        if o.tree != pristine {
            out.push(Violation::new("changed_before_prologue", format!("input cut after {t} bytes (before the first content-bearing request is complete) changed the served tree"), json!({"part":"server","name":format!("cut {t}")})));
            break;
        }
    }
    // content bytes that LOOK like a request frame must never be interpreted as one, whatever happens to the Put
    {
        let root = sc.path("hubc");
        init_hub(&root);
        let victim_hash = h(b"keep me");
        let evil = framed(&cbor(&Request::Delete { path: "keep".into(), expected: Some(victim_hash) }));
        let long_name = "n".repeat(245);
        let targets: Vec<(&str, String, Option<[u8; 32]>)> = vec![
            ("valid path", "ok-target".into(), None),
            ("bad path", "../evil".into(), None),
            ("wrong declared hash", "w".into(), Some(h(b"not this"))),
            ("parent component is a regular file", "keep/x".into(), None),
            ("name whose staging name exceeds NAME_MAX", long_name, None),
            ("path is an existing directory", "d".into(), None),
        ];
        let mut targets = targets;
        let mb: Vec<(String, String)> = ["", "a", "ab"].iter().flat_map(|pre| (76..=86usize).map(move |k| (format!("name of {pre:?} + {k} x U+20AC ({} bytes)", pre.len() + 3 * k), format!("{pre}{}", "\u{20AC}".repeat(k))))).collect();
        for (n, p) in &mb {
            targets.push((n.as_str(), p.clone(), None));
        }
        for (name, path, bad_hash) in targets {
            evals.fetch_add(1, Ordering::Relaxed);
            let mut input = frames[0].clone();
            input.extend_from_slice(&frames[1]);
            input.extend(framed(&cbor(&Request::Put { path: path.clone(), expected: None, len: evil.len() as u64, hash: bad_hash.unwrap_or_else(|| h(&evil)) })));
            input.extend_from_slice(&evil);
            input.extend(framed(&cbor(&Request::List)));
            input.extend(framed(&cbor(&Request::Bye)));
            let o = serve_session(&root, &input, true);
            if o.tree.get("keep").map(Vec::as_slice) != Some(b"keep me".as_slice()) {
                out.push(Violation::new("content_executed_as_request", format!("Put ({name}) whose CONTENT is a framed `Delete keep`: afterwards `keep` is gone — content bytes were interpreted as a request"), json!({"part":"content_as_frames","name":name})));
            }
            if o.timed_out || o.signal.is_some() {
                out.push(Violation::new("server_crash", format!("Put ({name}): server hung or was killed by a signal"), json!({"part":"content_as_frames","name":name})));
            }
        }
    }
    // resynchronisation after an error reply to a well-framed request
    let errs: Vec<(&str, Vec<u8>)> = vec![
        ("Get of a missing file", framed(&cbor(&Request::Get { path: "nope".into() }))),
        ("Get with a bad path", framed(&cbor(&Request::Get { path: "../x".into() }))),
        ("Delete with a bad path", framed(&cbor(&Request::Delete { path: "/abs".into(), expected: None }))),
        ("Put with a bad path (content supplied)", { let mut v = framed(&cbor(&Request::Put { path: "../evil".into(), expected: None, len: 4, hash: h(b"evil") })); v.extend_from_slice(b"evil"); v }),
        ("Put with a wrong hash (full len supplied)", { let mut v = framed(&cbor(&Request::Put { path: "w".into(), expected: None, len: 4, hash: h(b"other") })); v.extend_from_slice(b"data"); v }),
        ("Put with a bad path and len 0", framed(&cbor(&Request::Put { path: "/x".into(), expected: None, len: 0, hash: h(b"") }))),
        ("Put with a bad path and 70000 content bytes", { let c = vec![b'z'; 70_000]; let mut v = framed(&cbor(&Request::Put { path: "a/../../b".into(), expected: None, len: 70_000, hash: h(&c) })); v.extend_from_slice(&c); v }),
    ];
    let root = sc.path("huby");
    let mut prologue = frames[0].clone();
    prologue.extend_from_slice(&frames[1]);
    let mut fresh_in = prologue.clone();
    fresh_in.extend(probe_bytes());
    let fresh = serve_session(&root, &fresh_in, true);
    let hello_len = {
        // length of the Hello reply frame at the start of stdout
        if fresh.stdout.len() >= 4 { 4 + u32::from_be_bytes([fresh.stdout[0], fresh.stdout[1], fresh.stdout[2], fresh.stdout[3]]) as usize } else { 0 }
    };
    for (name, req) in &errs {
        evals.fetch_add(1, Ordering::Relaxed);
        let mut input = prologue.clone();
        input.extend_from_slice(req);
        input.extend(probe_bytes());
        let o = serve_session(&root, &input, true);
        // expected stdout: Hello reply, ONE error frame, then exactly the fresh session's probe replies
        let (rs, _) = parse_replies(&o.stdout, 0);
        let (fr, _) = parse_replies(&fresh.stdout, 0);
        let ok = rs.len() == fr.len() + 1 && matches!(rs.get(1), Some(Ok(Reply::Error(_)))) && rs[2..] == fr[1..] && rs.first() == fr.first();
        if !ok || o.code != Some(0) {
            out.push(Violation::new("out_of_step_after_error", format!("{name}: after the error reply the later valid requests were answered {:?}; a fresh session answers {:?} (exit {:?})", rs.iter().skip(1).map(|r| r.as_ref().map(reply_label).map_err(Clone::clone)).collect::<Vec<_>>(), fr.iter().skip(1).map(|r| r.as_ref().map(reply_label).map_err(Clone::clone)).collect::<Vec<_>>(), o.code), json!({"part":"resync","name":name})));
        }
        let _ = hello_len;
    }
    out
}

pub fn run_c12(ctx: &Ctx) -> ! {
    let thorough = ctx.tier.is_thorough();
    let evals = AtomicU64::new(0);
    let nontrivial = AtomicU64::new(0);
    let mut violations = Vec::new();
    if let Some(rp) = &ctx.replay {
        let v: Value = serde_json::from_slice(&std::fs::read(rp).unwrap_or_default()).unwrap_or(Value::Null);
        if v["detail"]["part"] == "decoder" {
            let b = unhex(v["detail"]["bytes"].as_str().unwrap_or(""));
            if let Some((k, m)) = decode_one(&b) {
                violations.push(Violation::new(k, m, v["detail"].clone()));
            }
        } else {
            let name = v["detail"]["name"].as_str().unwrap_or("").to_string();
            if v["detail"]["part"] == "memory" {
                violations.extend(memory_sessions(true, &evals, &nontrivial).into_iter().filter(|x| x.detail["name"] == name.as_str()));
            }
            violations.extend(server_part(true, &evals, &nontrivial).into_iter().filter(|x| x.detail["name"] == name.as_str()));
        }
        let mut rep = Report::new("exploration");
        rep.set("evaluations", 2u64).set("distinct_nontrivial", 2u64).set("rule", "replay").set("samples", json!([v["detail"]]));
        finish(ctx, rep, violations);
    }
    violations.extend(decoder_part(thorough, &evals, &nontrivial));
    let dec = evals.load(Ordering::Relaxed);
    violations.extend(server_part(thorough, &evals, &nontrivial));
    let sess = evals.load(Ordering::Relaxed) - dec;
    violations.extend(memory_sessions(thorough, &evals, &nontrivial));
    let mem = evals.load(Ordering::Relaxed) - dec - sess;
    let mut per: std::collections::HashMap<String, usize> = Default::default();
    violations.retain(|v| {
        let c = per.entry(v.kind().to_string()).or_insert(0);
        *c += 1;
        *c <= 4
    });
    let mut rep = Report::new("exploration");
    rep.set("evaluations", evals.load(Ordering::Relaxed))
        .set("distinct_nontrivial", nontrivial.load(Ordering::Relaxed))
        .set("decoder_inputs", dec)
        .set("server_sessions", sess)
        .set("memory_history_sessions", mem)
        .set("rule", "memory histories (the REAL request loop serve::serve run in a child of this harness under the counting allocator): Hello, optionally a legal Get frame of 0.5–1 MiB, then a length prefix from {700 000, 2^20, 2^20+1, 2^32-1} with and without its body — the largest single allocation of the whole session must stay <= 1 MiB + 64 KiB; decoder level (real wire::read_magic / read_frame::<Request>, counting allocator): every byte string of length <= 3 over all 256 values; every length prefix in {0, 1, 2^20-1, 2^20, 2^20+1, 2^31, 2^32-1} followed by every body of a CBOR menu (all 6 request kinds valid, each at every truncation, + trailing bytes; maps/arrays/strings/byte-strings declaring 2^32, 2^63, 2^64-1; nesting depth 10 / 200 / 100 000; indefinite-length items; wrong variants). Whole server (real process, RLIMIT_AS 512 MiB, 10 s timeout): a reference session cut after EVERY byte; every frame dropped / duplicated / swapped; banners before the magic; every length-prefix mutation at every frame; the CBOR menu after a valid prologue followed by a probe suffix; 7 well-framed error-earning requests followed by the probe suffix (replies must equal a fresh session's); non-trivial = derived from a valid session or CBOR item")
        .set("samples", json!([{"part":"decoder","bytes":"ffffffff"},{"part":"server","name":"reference session cut after 57 bytes"},{"part":"server","name":"frame 3 length prefix := 4294967295"},{"part":"resync","name":"Put with a bad path (content supplied)"}]))
        .set("exhaustive", true);
    rep.assume("memory bound: largest single allocation per decode call <= 1 MiB + 64 KiB (counting allocator) in-process, RLIMIT_AS = 512 MiB for the real server; 'spins' = still running 10 s after stdin was closed");
    finish(ctx, rep, violations);
}
