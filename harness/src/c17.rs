//! C17 — rolling checksums equal their definition after any operations.
//! Explicit-state exploration of the two real checksum objects under {new, push, roll}.

use crate::common::*;
use copia::{FastRollingChecksum, RollingChecksum};
use rayon::prelude::*;
use serde_json::{json, Value};
use std::collections::HashSet;

const MOD: u128 = 65521;

/// Window = buf[start..]; kept as a growing stream so `new(window)` sees a slice.
#[derive(Clone)]
struct St {
    buf: Vec<u8>,
    start: usize,
    rc: RollingChecksum,
    fast: FastRollingChecksum,
}

impl St {
    fn new(w: &[u8]) -> Self {
        Self {
            buf: w.to_vec(),
            start: 0,
            rc: RollingChecksum::new(w),
            fast: FastRollingChecksum::new(w),
        }
    }
    fn empty() -> Self {
        Self {
            buf: Vec::new(),
            start: 0,
            rc: RollingChecksum::empty(),
            fast: FastRollingChecksum::empty(),
        }
    }
    fn window(&self) -> &[u8] {
        &self.buf[self.start..]
    }
    fn push(&mut self, x: u8) {
        self.rc.push(x);
        self.fast.push(x);
        self.buf.push(x);
    }
    /// One-byte slide: the outgoing byte is the real front of the window.
    fn roll(&mut self, x: u8) {
        let old = self.buf[self.start];
        self.rc.roll(old, x);
        self.fast.roll(old, x);
        self.buf.push(x);
        self.start += 1;
        if self.start > (1 << 20) {
            self.buf.drain(..self.start);
            self.start = 0;
        }
    }
    /// Full hidden state (both types derive Debug, which prints every field).
    fn key(&self) -> u128 {
        let s = format!("{:?}|{:?}|", self.rc, self.fast);
        let mut h = blake3::Hasher::new();
        h.update(s.as_bytes());
        h.update(self.window());
        let d = h.finalize();
        u128::from_le_bytes(d.as_bytes()[..16].try_into().unwrap_or([0; 16]))
    }
}

/// The definition, in exact integers.
fn definition(w: &[u8]) -> u32 {
    let n = w.len() as u128;
    let mut a: u128 = 0;
    let mut b: u128 = 0;
    for (i, &x) in w.iter().enumerate() {
        a += u128::from(x);
        b += (n - i as u128) * u128::from(x);
    }
    (((b % MOD) as u32) << 16) | ((a % MOD) as u32)
}

/// Oracle for one state. `full`: also compare against `T::new(window)`.
fn check_state(s: &St, full: bool) -> Option<(&'static str, String)> {
    let w = s.window();
    let want = definition(w);
    if s.rc.len() != w.len() || s.fast.len() != w.len() {
        return Some((
            "len",
            format!("len(): rolling={} fast={} window={}", s.rc.len(), s.fast.len(), w.len()),
        ));
    }
    if u128::from(s.rc.sum_a()) >= MOD || u128::from(s.rc.sum_b()) >= MOD {
        return Some((
            "component_bound",
            format!("sum_a={} sum_b={} not both < 65521", s.rc.sum_a(), s.rc.sum_b()),
        ));
    }
    if full && !w.is_empty() {
        let rn = RollingChecksum::new(w);
        if rn.digest() != want {
            return Some((
                "rolling_new",
                format!("RollingChecksum::new(window).digest()={:08x} definition={:08x} (len {})", rn.digest(), want, w.len()),
            ));
        }
        if u128::from(rn.sum_a()) >= MOD || u128::from(rn.sum_b()) >= MOD || rn.len() != w.len() {
            return Some(("component_bound", "new(): component or len wrong".to_string()));
        }
        let fnw = FastRollingChecksum::new(w);
        if fnw.digest() != want {
            return Some((
                "fast_new",
                format!("FastRollingChecksum::new(window).digest()={:08x} definition={:08x} (len {})", fnw.digest(), want, w.len()),
            ));
        }
    }
    if s.rc.digest() != want {
        return Some((
            "rolling_ops",
            format!("RollingChecksum digest after ops={:08x} definition={:08x} (len {})", s.rc.digest(), want, w.len()),
        ));
    }
    if s.rc.digest() != (s.rc.sum_b() << 16 | s.rc.sum_a()) {
        return Some(("component_bound", "digest != (sum_b<<16)|sum_a".to_string()));
    }
    if s.fast.digest() != want {
        return Some((
            "fast_ops",
            format!("FastRollingChecksum digest after ops={:08x} definition={:08x} (len {})", s.fast.digest(), want, w.len()),
        ));
    }
    None
}


// ───────────── tier B: every boundary state of the modular reductions ─────────────

/// A window of length `n` whose first byte is `out` and whose exact sums are ≡ (a_t, b_t) mod 65521.
/// Mass is first packed at the low-weight end (minimal b), then single units are moved towards the
/// front until the weighted sum reaches the target residue. Verified by the caller.
fn window_for(n: usize, out: u8, a_t: u32, b_t: u32) -> Option<Vec<u8>> {
    let m = MOD as u64;
    let cap = 255u64 * (n as u64 - 1);
    let a_t = u64::from(a_t);
    let mut s = None;
    // prefer a total with plenty of mass and plenty of room
    for cand in [a_t + m, a_t, a_t + 2 * m] {
        if cand >= u64::from(out) && cand - u64::from(out) <= cap && cand - u64::from(out) >= 400 {
            s = Some(cand - u64::from(out));
            break;
        }
    }
    let mut rem = s?;
    let mut w = vec![0u8; n];
    w[0] = out;
    let mut i = n - 1;
    while rem > 0 && i >= 1 {
        let t = rem.min(255);
        w[i] = t as u8;
        rem -= t;
        i -= 1;
    }
    if rem > 0 {
        return None;
    }
    let weight = |i: usize| (n - i) as u64;
    let b0: u64 = w.iter().enumerate().map(|(i, &x)| weight(i) * u64::from(x)).sum();
    let mut d = (u64::from(b_t) + m - b0 % m) % m;
    let mut guard = 0;
    while d > 0 {
        guard += 1;
        if guard > 200_000 {
            return None;
        }
        let j = (1..n).find(|&k| w[k] < 255)?; // best destination (highest weight with room)
        let i = (1..n).rev().find(|&k| w[k] > 0)?; // best source (lowest weight with mass)
        if i <= j {
            return None;
        }
        let gain = (i - j) as u64;
        if gain <= d {
            w[i] -= 1;
            w[j] += 1;
            d -= gain;
        } else {
            // a move of exactly d: any (src, dst) with src - dst = d, src has mass, dst has room
            let dd = d as usize;
            let mut done = false;
            for dst in j..n - dd {
                let src = dst + dd;
                if w[dst] < 255 && w[src] > 0 {
                    w[src] -= 1;
                    w[dst] += 1;
                    done = true;
                    break;
                }
            }
            if !done {
                return None;
            }
            d = 0;
        }
    }
    Some(w)
}

/// One boundary case: build the window, check it has the wanted sums, roll once, compare with the definition.
fn boundary_case(n: usize, out: u8, inb: u8, a_old: u32, b_old: u32) -> (bool, Option<(&'static str, String)>) {
    let Some(w) = window_for(n, out, a_old, b_old) else { return (false, None) };
    let def = definition(&w);
    if def != (b_old << 16 | a_old) {
        return (false, None);
    }
    let mut st = St::new(&w);
    if let Some(v) = check_state(&st, false) {
        return (true, Some(v));
    }
    st.roll(inb);
    (true, check_state(&st, false))
}

// ───────────── case description (replayable) ─────────────

const PATTERNS: [&str; 8] = ["zero", "ff", "one", "ramp", "alt", "ff_then_zero", "zero_then_ff", "high"];

fn pat_byte(p: &str, i: usize, l: usize, seed: u64) -> u8 {
    match p {
        "zero" => 0,
        "ff" => 0xFF,
        "one" => 1,
        "ramp" => (i % 256) as u8,
        "alt" => {
            if i % 2 == 0 {
                0
            } else {
                0xFF
            }
        }
        "ff_then_zero" => {
            if (i % l.max(1)) < l / 2 {
                0xFF
            } else {
                0
            }
        }
        "zero_then_ff" => {
            if (i % l.max(1)) < l / 2 {
                0
            } else {
                0xFF
            }
        }
        _ => {
            let mut z = seed ^ (i as u64).wrapping_mul(0x9E37_79B9_7F4A_7C15);
            z = (z ^ (z >> 30)).wrapping_mul(0xBF58_476D_1CE4_E5B9);
            z ^= z >> 27;
            0x80 | (z as u8 & 0x7F)
        }
    }
}

/// Run a replayable case: init = {"hex":..} | {"len":L,"pattern":p} | {"empty":true};
/// ops = list of ["push"|"roll", byte] or ["pushn"|"rolln", k] (pattern stream).
pub fn run_case(case: &Value, seed: u64) -> Option<Violation> {
    if let Some(bc) = case.get("boundary") {
        let g = |k: &str| bc[k].as_u64().unwrap_or(0);
        let (_, v) = boundary_case(g("n") as usize, g("out") as u8, g("in") as u8, g("a") as u32, g("b") as u32);
        return v.map(|(k, m)| Violation::new(k, format!("{m} after one roll from a constructed boundary window"), case.clone()).with("kind", json!(k)));
    }
    let init = &case["init"];
    let (mut st, pat, l) = if let Some(h) = init.get("hex").and_then(Value::as_str) {
        (St::new(&unhex(h)), "zero".to_string(), 0usize)
    } else if init.get("empty").is_some() {
        (St::empty(), "zero".to_string(), 0)
    } else {
        let l = init["len"].as_u64().unwrap_or(1) as usize;
        let p = init["pattern"].as_str().unwrap_or("zero").to_string();
        let w: Vec<u8> = (0..l).map(|i| pat_byte(&p, i, l, seed)).collect();
        (St::new(&w), p, l)
    };
    let mut next = l;
    let mk = |kind: &str, msg: String, step: usize| {
        Violation::new(kind, format!("{msg} at step {step}"), case.clone()).with("kind", json!(kind))
    };
    if let Some((k, m)) = check_state(&st, true) {
        return Some(mk(k, m, 0));
    }
    let mut step = 0usize;
    for op in case["ops"].as_array().cloned().unwrap_or_default() {
        let name = op[0].as_str().unwrap_or("");
        let arg = op[1].as_u64().unwrap_or(0);
        match name {
            "push" => st.push(arg as u8),
            "roll" => st.roll(arg as u8),
            "pushn" | "rolln" => {
                for j in 0..arg {
                    let x = pat_byte(&pat, next, l, seed);
                    next += 1;
                    if name == "pushn" {
                        st.push(x);
                    } else {
                        st.roll(x);
                    }
                    if j % 997 == 996 {
                        step += 1;
                        if let Some((k, m)) = check_state(&st, false) {
                            return Some(mk(k, m, step));
                        }
                    }
                }
            }
            _ => {}
        }
        step += 1;
        if let Some((k, m)) = check_state(&st, true) {
            return Some(mk(k, m, step));
        }
    }
    None
}

// ───────────── tier S / M: every primitive sequence, BFS with full-state dedup ─────────────

struct BfsOut {
    states: u64,
    transitions: u64,
    violation: Option<Violation>,
    max_depth: usize,
}

fn bfs(init_case: Value, root: St, ops: &[(&'static str, u8)], depth: usize, allow_push_to: usize) -> BfsOut {
    let mut seen: HashSet<u128> = HashSet::new();
    let mut out = BfsOut { states: 0, transitions: 0, violation: None, max_depth: 0 };
    if let Some((k, m)) = check_state(&root, true) {
        out.violation = Some(Violation::new(k, format!("{m} at step 0"), json!({"init": init_case, "ops": []})));
        out.states = 1;
        return out;
    }
    seen.insert(root.key());
    let mut frontier: Vec<(St, Vec<u8>)> = vec![(root, Vec::new())]; // (state, op indices)
    for d in 1..=depth {
        let mut next = Vec::new();
        for (s, path) in &frontier {
            for (oi, (name, x)) in ops.iter().enumerate() {
                if *name == "roll" && s.window().is_empty() {
                    continue;
                }
                if *name == "push" && s.window().len() >= allow_push_to {
                    continue;
                }
                let mut t = s.clone();
                if *name == "push" {
                    t.push(*x)
                } else {
                    t.roll(*x)
                }
                out.transitions += 1;
                if let Some((k, m)) = check_state(&t, true) {
                    let mut p = path.clone();
                    p.push(oi as u8);
                    let opsj: Vec<Value> = p.iter().map(|&i| json!([ops[i as usize].0, ops[i as usize].1])).collect();
                    out.violation = Some(Violation::new(k, format!("{m} at step {d}"), json!({"init": init_case, "ops": opsj})));
                    out.states = seen.len() as u64;
                    out.max_depth = d;
                    return out;
                }
                if seen.insert(t.key()) {
                    let mut p = path.clone();
                    p.push(oi as u8);
                    next.push((t, p));
                }
            }
        }
        out.max_depth = d;
        frontier = next;
        if frontier.is_empty() {
            break;
        }
    }
    out.states = seen.len() as u64;
    out
}

pub fn run(ctx: &Ctx) -> ! {
    if let Some(rp) = &ctx.replay {
        let v: Value = serde_json::from_slice(&std::fs::read(rp).unwrap_or_default()).unwrap_or(Value::Null);
        let seed = v["seed"].as_u64().unwrap_or(ctx.seed);
        let r1 = run_case(&v["detail"], seed);
        let r2 = run_case(&v["detail"], seed);
        if r1.is_some() != r2.is_some() {
            machinery_error("C17 replay not deterministic");
        }
        let mut rep = Report::new("model_checking");
        rep.set("states", 1u64).set("transitions", 1u64).set("traces_validated_against_impl", 1u64).set("samples", json!([v["detail"]]));
        finish(ctx, rep, r1.into_iter().collect());
    }
    let thorough = ctx.tier.is_thorough();
    let mut violations: Vec<Violation> = Vec::new();
    let mut states = 0u64;
    let mut transitions = 0u64;
    let mut samples: Vec<Value> = Vec::new();

    // Tier S: all initial windows of length 0..=4 over Σ, all op sequences to depth D.
    let sigma = [0x00u8, 0x01, 0x80, 0xFF];
    let mut roots: Vec<Vec<u8>> = vec![vec![]];
    for len in 1..=4usize {
        let n = 4usize.pow(len as u32);
        for i in 0..n {
            let mut w = Vec::with_capacity(len);
            let mut k = i;
            for _ in 0..len {
                w.push(sigma[k % 4]);
                k /= 4;
            }
            roots.push(w);
        }
    }
    let ops_s: Vec<(&'static str, u8)> = sigma.iter().map(|&x| ("push", x)).chain(sigma.iter().map(|&x| ("roll", x))).collect();
    let depth_s = if thorough { 7 } else { 5 };
    let res: Vec<BfsOut> = roots
        .par_iter()
        .map(|w| {
            let (init, st) = if w.is_empty() { (json!({"empty": true}), St::empty()) } else { (json!({"hex": hex(w)}), St::new(w)) };
            bfs(init, st, &ops_s, depth_s, usize::MAX)
        })
        .collect();
    let tier_s_roots = res.len();
    for r in res {
        states += r.states;
        transitions += r.transitions;
        violations.extend(r.violation);
    }
    samples.push(json!({"tier":"S","init":{"hex":"ff8001"},"ops":[["roll",0],["push",255],["roll",128]],"depth":depth_s,"roots":tier_s_roots}));

    // Tier M: windows whose sums exceed the modulus, all sequences over a 5-op alphabet.
    let ops_m: Vec<(&'static str, u8)> = vec![("roll", 0x00), ("roll", 0xFF), ("roll", 0x80), ("push", 0xFF), ("push", 0x00)];
    let depth_m = if thorough { 9 } else { 6 };
    let mut roots_m: Vec<(usize, &str)> = Vec::new();
    for l in [255usize, 256, 257, 258, 511, 513, 1000] {
        for p in ["ff", "zero", "ff_then_zero", "zero_then_ff", "ramp", "high"] {
            roots_m.push((l, p));
        }
    }
    let seed = ctx.seed;
    let res: Vec<BfsOut> = roots_m
        .par_iter()
        .map(|&(l, p)| {
            let w: Vec<u8> = (0..l).map(|i| pat_byte(p, i, l, seed)).collect();
            bfs(json!({"len": l, "pattern": p}), St::new(&w), &ops_m, depth_m, 65536)
        })
        .collect();
    for r in res {
        states += r.states;
        transitions += r.transitions;
        violations.extend(r.violation);
    }
    samples.push(json!({"tier":"M","init":{"len":257,"pattern":"ff"},"ops":[["roll",0],["roll",255],["push",255]],"depth":depth_m,"roots":roots_m.len()}));

    // Tier L: boundary windows, macro steps, all macro sequences to depth 2 / 3.
    let lens: [usize; 19] = [1, 2, 3, 255, 256, 257, 511, 512, 513, 4095, 4096, 4097, 8191, 8192, 8193, 16384, 32768, 65535, 65536];
    let depth_l = if thorough { 3 } else { 2 };
    let mut jobs: Vec<(usize, &str, Vec<(&'static str, u64)>)> = Vec::new();
    for &l in &lens {
        let mut ks: Vec<u64> = vec![1, 2, (l as u64).saturating_sub(1), l as u64, l as u64 + 1, 4999, 5000, 5001, 10001];
        ks.retain(|&k| k > 0);
        ks.sort_unstable();
        ks.dedup();
        let macros: Vec<(&'static str, u64)> = ks.iter().map(|&k| ("rolln", k)).chain(ks.iter().map(|&k| ("pushn", k))).collect();
        for p in PATTERNS {
            // enumerate all macro sequences to depth_l, pruning pushes that would exceed 65536
            let mut seqs: Vec<Vec<(&'static str, u64)>> = vec![vec![]];
            let mut level: Vec<(Vec<(&'static str, u64)>, usize)> = vec![(vec![], l)];
            for _ in 0..depth_l {
                let mut nl = Vec::new();
                for (s, wl) in &level {
                    for m in &macros {
                        let nwl = if m.0 == "pushn" { wl + m.1 as usize } else { *wl };
                        if nwl > 65536 {
                            continue;
                        }
                        let mut t = s.clone();
                        t.push(*m);
                        seqs.push(t.clone());
                        nl.push((t, nwl));
                    }
                }
                level = nl;
            }
            // only maximal sequences need running (prefixes are checked on the way),
            // but running every sequence keeps "first violation = shortest" simple.
            for s in seqs.into_iter().filter(|s| s.len() == depth_l || s.is_empty()) {
                jobs.push((l, p, s));
            }
        }
    }
    let macro_runs = jobs.len() as u64;
    let lres: Vec<(u64, Option<Violation>)> = jobs
        .par_iter()
        .map(|(l, p, s)| {
            let case = json!({"init": {"len": l, "pattern": p}, "ops": s.iter().map(|m| json!([m.0, m.1])).collect::<Vec<_>>()});
            let prim: u64 = s.iter().map(|m| m.1).sum();
            (prim, run_case(&case, seed))
        })
        .collect();
    let mut prim_steps = 0u64;
    // keep one (the first) violation per (kind, L) so the list stays readable
    let mut seen_kl: HashSet<(String, u64)> = HashSet::new();
    for (i, (prim, v)) in lres.into_iter().enumerate() {
        prim_steps += prim;
        if let Some(v) = v {
            let l = jobs[i].0 as u64;
            if seen_kl.insert((v.kind().to_string(), l)) {
                violations.push(v);
            }
        }
    }
    transitions += prim_steps;
    states += macro_runs; // each macro run ends in (at least) one checked state of its own
    samples.push(json!({"tier":"L","init":{"len":8192,"pattern":"ff"},"ops":[["rolln",5001],["pushn",1]],"macro_depth":depth_l,"macro_sequences":macro_runs,"primitive_steps":prim_steps}));

    // Tier D: deep histories — tens of millions of consecutive slides without re-initialisation (lazy
    // normalisation intervals, accumulator headroom), checked against the definition every 997 steps.
    let deep_n: u64 = if thorough { (1 << 26) + (1 << 22) } else { (1 << 25) + (1 << 22) };
    let deep_jobs: Vec<(usize, &str)> = vec![(4096, "ff"), (64, "ff"), (4096, "high"), (2048, "alt")];
    let dres: Vec<Option<Violation>> = deep_jobs
        .par_iter()
        .map(|(l, p)| run_case(&json!({"init": {"len": l, "pattern": p}, "ops": [["rolln", deep_n]]}), seed))
        .collect();
    for v in dres.into_iter().flatten() {
        violations.push(v);
    }
    transitions += deep_n * deep_jobs.len() as u64;
    states += deep_n / 997 * deep_jobs.len() as u64;
    samples.push(json!({"tier":"D","init":{"len":4096,"pattern":"ff"},"ops":[["rolln",deep_n]],"runs":deep_jobs.len()}));

    // Tier B: every boundary state of the two modular reductions of `roll`. For window length n and
    // bytes (out, in): (i) for EVERY residue a' of the new byte sum, the old state whose new weighted
    // sum is exactly ≡ 0; (ii) the new byte sum exactly ≡ 0 with EVERY residue of the old weighted sum.
    let combos: Vec<(usize, u8, u8)> = if thorough {
        let mut v = Vec::new();
        for n in [300usize, 521, 1024] {
            for o in [0u8, 1, 255] {
                for i in [0u8, 1, 255] {
                    v.push((n, o, i));
                }
            }
        }
        v
    } else {
        vec![(300, 0, 0), (300, 0, 255), (300, 255, 0), (300, 255, 255), (300, 1, 1), (521, 0, 173)]
    };
    let m32 = MOD as u32;
    let mut bjobs: Vec<(usize, u8, u8, u32, u32)> = Vec::new();
    for &(n, o, i) in &combos {
        let no = (n as u64 * u64::from(o) % MOD as u64) as u32;
        for x in 0..m32 {
            // (i) a' = x, b' = 0  =>  a_old = a' + out - in, b_old = n*out - a'
            let a_old = (x + u32::from(o) + m32 - u32::from(i)) % m32;
            let b_old = (no + m32 - x) % m32;
            bjobs.push((n, o, i, a_old, b_old));
            // (ii) a' = 0, b_old = x
            let a_old0 = (u32::from(o) + m32 - u32::from(i)) % m32;
            bjobs.push((n, o, i, a_old0, x));
        }
    }
    let bres: Vec<(bool, Option<Violation>)> = bjobs
        .par_iter()
        .map(|&(n, o, i, a, b)| {
            let (built, v) = boundary_case(n, o, i, a, b);
            (built, v.map(|(k, m)| Violation::new(k, format!("{m} after one roll from a constructed boundary window (n={n}, out={o}, in={i}, sums ≡ ({a}, {b}))"), json!({"boundary": {"n": n, "out": o, "in": i, "a": a, "b": b}})).with("kind", json!(k))))
        })
        .collect();
    // Tier B2: windows LONGER than the modulus (65522 … 65536 bytes): every small value T of the intermediate sum
    // b_old + a_new (0 … 4000, i.e. below (n - 65521) * 255 for every such n), split three ways between its two terms.
    let mut b2jobs: Vec<(usize, u8, u8, u32, u32)> = Vec::new();
    let big_ns: Vec<usize> = if thorough { vec![65_522, 65_523, 65_529, 65_535, 65_536] } else { vec![65_522, 65_536] };
    for &n in &big_ns {
        for o in [1u8, 255] {
            for i in [0u8, 255] {
                for t in 0..=4000u32 {
                    for a_new in [0u32, t / 2, t] {
                        let b_old = t - a_new;
                        let a_old = (a_new + u32::from(o) + m32 - u32::from(i)) % m32;
                        b2jobs.push((n, o, i, a_old, b_old));
                    }
                }
            }
        }
    }
    let b2res: Vec<(bool, Option<Violation>)> = b2jobs
        .par_iter()
        .map(|&(n, o, i, a, b)| {
            let (built, v) = boundary_case(n, o, i, a, b);
            (built, v.map(|(k, m)| Violation::new(k, format!("{m} after one roll from a constructed boundary window (n={n}, out={o}, in={i}, sums ≡ ({a}, {b}))"), json!({"boundary": {"n": n, "out": o, "in": i, "a": a, "b": b}})).with("kind", json!(k))))
        })
        .collect();
    let built2 = b2res.iter().filter(|r| r.0).count() as u64;
    if built2 * 100 < b2jobs.len() as u64 * 90 {
        machinery_error(format!("C17 tier B2: only {built2} of {} long boundary windows could be constructed", b2jobs.len()));
    }
    let built = bres.iter().filter(|r| r.0).count() as u64 + built2;
    let bres: Vec<(bool, Option<Violation>)> = bres.into_iter().chain(b2res).collect();
    if (built - built2) * 100 < bjobs.len() as u64 * 95 {
        machinery_error(format!("C17 tier B: only {built} of {} boundary windows could be constructed", bjobs.len()));
    }
    let mut seen_b: HashSet<String> = HashSet::new();
    for (_, v) in bres {
        if let Some(v) = v {
            if seen_b.insert(v.kind().to_string()) {
                violations.push(v);
            }
        }
    }
    states += built;
    transitions += built;
    samples.push(json!({"tier":"B","boundary":{"n":300,"out":0,"in":255,"a":255,"b":65266},"constructed":built,"wanted":bjobs.len()}));

    // Determinism of the replay path: every reported violation must reproduce.
    for v in &violations {
        let again = run_case(&v.detail, seed);
        if again.as_ref().map(|a| a.kind().to_string()) != Some(v.kind().to_string()) {
            machinery_error(format!("C17 violation does not replay deterministically: {}", v.summary));
        }
    }

    let mut rep = Report::new("model_checking");
    rep.set("states", states)
        .set("transitions", transitions)
        .set("traces_validated_against_impl", transitions)
        .set("samples", Value::Array(samples))
        .set("exhaustive", true)
        .set("bounds", json!({"tier_S_depth": depth_s, "tier_S_roots": tier_s_roots, "tier_M_depth": depth_m, "tier_M_roots": roots_m.len(), "tier_L_macro_depth": depth_l, "tier_L_lengths": lens.len(), "tier_L_patterns": PATTERNS.len(), "tier_D_consecutive_rolls": deep_n, "tier_B_boundary_states": built}))
        .set("explanation", "explicit-state BFS; every transition calls the real push/roll on cloned real objects; dedup key = full Debug state of both objects + window bytes; oracle = exact-integer definition recomputed from the harness's own window copy");
    rep.assume("windows up to 65536 bytes; sequences bounded as in coverage.bounds; byte values of tier L drawn from 8 fixed patterns; tier D is a single deep path per pattern (not a product); tier B constructs, for every residue, one window realising the boundary state (the representative is fixed, the residues are exhaustive)");
    finish(ctx, rep, violations);
}
