//! E6 — thread-level controlled scheduling of ONE real multi-threaded `copia sync -r SRC DST` process
//! (the local direction of C04: "forall orders in which the parallel transfers complete").
//!
//! The interposer's `tsched` mode gives every thread of the copia process its own connection to this
//! driver; a thread announces each libc call that names a path under SRC or DST (`AT …`) and waits for
//! `GO`.  The driver lets exactly one announced call proceed at a time and picks the next one only when
//! the process is *quiescent*: every thread is either parked in the interposer or blocked in
//! futex/epoll (idle tokio worker, idle blocking-pool thread, `block_on`), established by two
//! consecutive scans of /proc/<pid>/task/* with identical context-switch counters.  Calls are attributed
//! to the *transfer* (relative path) they belong to, so schedules are independent of OS thread ids.
//! Exploration is CHESS-style: default = keep running the current transfer; a deviation while the
//! current transfer still has an announced call is a preemption; all schedules within the bound run.

use crate::common::*;
use crate::e5::{c04_oracle, cfg_name, prepare, Cfg, CliOut, Prepared};
use serde_json::{json, Value};
use std::collections::BTreeSet;
use std::io::{Read, Write};
use std::os::unix::net::{UnixListener, UnixStream};
use std::sync::atomic::{AtomicU64, Ordering};
use std::sync::Mutex;

struct Conn {
    stream: UnixStream,
    buf: Vec<u8>,
    tid: i32,
    pending: Option<(String, String, String)>,
    /// the transfer this OS thread last worked for (attribution of calls whose paths name no transfer)
    sticky: String,
}

#[derive(Clone)]
pub struct TPoint {
    pub enabled: Vec<String>,
    pub chosen: u8,
    pub current_enabled: bool,
    pub preemptions_before: u32,
}

pub struct TExec {
    pub choices: Vec<u8>,
    pub points: Vec<TPoint>,
    pub labels: Vec<String>,
    pub out: CliOut,
    pub steps: usize,
    pub max_parked: usize,
    pub threads: usize,
    pub killed_at: Option<(usize, Vec<String>)>,
}

fn unesc(s: &str) -> String {
    let b = s.as_bytes();
    let mut out = Vec::new();
    let mut i = 0;
    while i < b.len() {
        if b[i] == b'\\' && i + 3 < b.len() && b[i + 1] == b'x' {
            if let Ok(v) = u8::from_str_radix(&s[i + 2..i + 4], 16) {
                out.push(v);
                i += 4;
                continue;
            }
        }
        out.push(b[i]);
        i += 1;
    }
    String::from_utf8_lossy(&out).into_owned()
}

/// (tid, voluntary+involuntary context switches) of every task if ALL of them are blocked where they
/// should be; None otherwise.
fn scan(pid: u32, parked: &BTreeSet<i32>) -> Option<Vec<(i32, u64)>> {
    let mut v = Vec::new();
    let rd = std::fs::read_dir(format!("/proc/{pid}/task")).ok()?;
    for e in rd.flatten() {
        let Ok(tid) = e.file_name().to_string_lossy().parse::<i32>() else { continue };
        let Ok(sc) = std::fs::read_to_string(format!("/proc/{pid}/task/{tid}/syscall")) else { continue };
        let nr = sc.split_whitespace().next().unwrap_or("");
        let ok = if parked.contains(&tid) { nr == "0" } else { matches!(nr, "202" | "232" | "281" | "441") };
        if !ok {
            return None;
        }
        let st = std::fs::read_to_string(format!("/proc/{pid}/task/{tid}/status")).unwrap_or_default();
        let mut n = 0u64;
        // a task that was woken but has not run yet still shows its old syscall: it must also be asleep
        if !st.lines().any(|l| l.starts_with("State:") && l.contains("S (sleeping)")) {
            return None;
        }
        for l in st.lines() {
            if l.starts_with("voluntary_ctxt_switches") || l.starts_with("nonvoluntary_ctxt_switches") {
                n += l.split_whitespace().last().and_then(|x| x.parse::<u64>().ok()).unwrap_or(0);
            }
        }
        v.push((tid, n));
    }
    v.sort();
    Some(v)
}

pub fn run_tsched(p: &Prepared, c: &Cfg, prefix: &[u8], expect: &[Vec<String>], workers: usize) -> TExec {
    run_tsched_kill(p, c, prefix, expect, workers, None)
}

/// As `run_tsched`; with `kill_at = Some(k)` the process is SIGKILLed when it has announced the calls of point k
/// and before any of them is released (all threads are parked or idle at that instant).
pub fn run_tsched_kill(p: &Prepared, c: &Cfg, prefix: &[u8], expect: &[Vec<String>], workers: usize, kill_at: Option<usize>) -> TExec {
    let sockp = p.env.sc.path("tsched.sock");
    let _ = std::fs::remove_file(&sockp);
    let listener = UnixListener::bind(&sockp).unwrap_or_else(|e| machinery_error(format!("bind {sockp:?}: {e}")));
    let _ = listener.set_nonblocking(true);
    let (s, d) = (p.env.src().to_string_lossy().into_owned(), p.env.dst().to_string_lossy().into_owned());
    let mut cmd = std::process::Command::new(cli_bin());
    cmd.arg("sync").arg("-r").arg("--jobs").arg(c.jobs.to_string());
    if c.delete {
        cmd.arg("--delete");
    }
    if !c.exclude.is_empty() {
        cmd.arg("--exclude").arg(c.exclude);
    }
    if c.verbose {
        cmd.arg("--verbose");
    }
    cmd.arg(&s).arg(&d);
    let (of, ef) = (p.env.sc.path("tsched.out"), p.env.sc.path("tsched.err"));
    let (ofh, efh) = (std::fs::File::create(&of), std::fs::File::create(&ef));
    let (Ok(ofh), Ok(efh)) = (ofh, efh) else { machinery_error("cannot create output files") };
    cmd.env("RUST_LOG", "off")
        .env("HOME", p.env.sc.path("home"))
        .env("LD_PRELOAD", crate::e3::SHIM)
        .env("VSHIM_MODE", "tsched")
        .env("VSHIM_ROOT", format!("{s}:{d}"))
        .env("VSHIM_SOCK", &sockp)
        .env("TOKIO_WORKER_THREADS", workers.to_string())
        .current_dir(p.env.sc.path("cwd"))
        .stdin(std::process::Stdio::null())
        .stdout(ofh)
        .stderr(efh);
    let mut child = cmd.spawn().unwrap_or_else(|e| machinery_error(format!("spawn copia: {e}")));
    let pid = child.id();
    let mut conns: Vec<Conn> = Vec::new();
    let mut ex = TExec { choices: Vec::new(), points: Vec::new(), labels: Vec::new(), out: CliOut { code: None, stdout: String::new(), stderr: String::new() }, steps: 0, max_parked: 0, threads: 0, killed_at: None };
    let src_files: BTreeSet<&String> = p.src0.0.keys().collect();
    let logical = |p1: &str| -> String {
        let rel = p1.strip_prefix(&format!("{s}/")).or_else(|| p1.strip_prefix(&format!("{d}/"))).unwrap_or("");
        let rel = rel.strip_suffix(".copia-tmp").unwrap_or(rel);
        if src_files.contains(&rel.to_string()) {
            rel.to_string()
        } else {
            "-".into()
        }
    };
    let mut current: Option<String> = None;
    let mut preemptions = 0u32;
    let mut exit_code: Option<Option<i32>> = None;
    let mut idle_since: Option<std::time::Instant> = None;
    'outer: loop {
        // settle
        let start = std::time::Instant::now();
        let mut last: Option<Vec<(i32, u64)>> = None;
        loop {
            let mut progressed = false;
            while let Ok((st, _)) = listener.accept() {
                let _ = st.set_nonblocking(true);
                conns.push(Conn { stream: st, buf: Vec::new(), tid: 0, pending: None, sticky: "-".into() });
                progressed = true;
            }
            for cn in conns.iter_mut() {
                let mut tmp = [0u8; 8192];
                loop {
                    match cn.stream.read(&mut tmp) {
                        Ok(0) => break,
                        Ok(n) => {
                            cn.buf.extend_from_slice(&tmp[..n]);
                            progressed = true;
                        }
                        Err(_) => break,
                    }
                }
                while let Some(nl) = cn.buf.iter().position(|&b| b == b'\n') {
                    let line = String::from_utf8_lossy(&cn.buf[..nl]).into_owned();
                    cn.buf.drain(..=nl);
                    let mut it = line.split(' ');
                    match it.next() {
                        Some("HELLO") => {
                            let _ = it.next();
                            cn.tid = it.next().and_then(|x| x.parse().ok()).unwrap_or(0);
                        }
                        Some("AT") => {
                            let call = it.next().unwrap_or("").to_string();
                            let p1 = unesc(it.next().unwrap_or("-"));
                            let p2 = unesc(it.next().unwrap_or("-"));
                            cn.pending = Some((call, p1, p2));
                        }
                        Some("DONE") => {}
                        _ => machinery_error(format!("tsched: unexpected line {line:?}")),
                    }
                }
            }
            if let Ok(Some(st)) = child.try_wait() {
                exit_code = Some(st.code());
                break 'outer;
            }
            if progressed {
                last = None;
                continue;
            }
            let parked: BTreeSet<i32> = conns.iter().filter(|c| c.pending.is_some()).map(|c| c.tid).collect();
            match scan(pid, &parked) {
                Some(v) => {
                    if last.as_ref() == Some(&v) {
                        ex.threads = ex.threads.max(v.len());
                        break;
                    }
                    last = Some(v);
                }
                None => {
                    last = None;
                    std::thread::yield_now();
                }
            }
            if start.elapsed().as_secs() > 30 {
                let _ = child.kill();
                let _ = child.wait();
                machinery_error(format!("tsched: the process did not become quiescent within 30 s after {:?}", ex.labels.iter().rev().take(6).collect::<Vec<_>>()));
            }
        }
        // enabled announced calls, in canonical order
        // attribution: by the first path, else by the second (rename target), else by what this thread did last
        for cn in conns.iter_mut() {
            if let Some((_, p1, p2)) = &cn.pending {
                let mut l = logical(p1);
                if l == "-" {
                    l = logical(p2);
                }
                if l != "-" {
                    cn.sticky = l;
                }
            }
        }
        let mut en: Vec<(String, String, String, usize)> = conns.iter().enumerate().filter_map(|(i, c)| c.pending.as_ref().map(|(call, p1, _)| (c.sticky.clone(), call.clone(), p1.clone(), i))).collect();
        en.sort();
        if en.is_empty() {
            // alive, nothing announced, nothing running: an exit in progress — or the process is stuck
            if idle_since.get_or_insert_with(std::time::Instant::now).elapsed().as_secs() > 20 {
                let _ = child.kill();
                let _ = child.wait();
                machinery_error(format!("tsched: process alive, nothing announced, nothing running for 20 s after {:?}", ex.labels.iter().rev().take(6).collect::<Vec<_>>()));
            }
            std::thread::sleep(std::time::Duration::from_micros(200));
            continue 'outer;
        }
        idle_since = None;
        ex.max_parked = ex.max_parked.max(en.len());
        let names: Vec<String> = en.iter().map(|(l, call, p1, _)| format!("{l}|{call}|{}", p1.rsplit('/').next().unwrap_or(""))).collect();
        let cur_pos = current.as_ref().and_then(|cl| en.iter().position(|(l, ..)| l == cl));
        // canonical order: the current transfer's call first
        let mut order: Vec<usize> = (0..en.len()).collect();
        if let Some(cp) = cur_pos {
            order.remove(cp);
            order.insert(0, cp);
        }
        let enabled_names: Vec<String> = order.iter().map(|&i| names[i].clone()).collect();
        let k = ex.points.len();
        if kill_at == Some(k) {
            let _ = child.kill();
            let _ = child.wait();
            ex.killed_at = Some((k, enabled_names.clone()));
            exit_code = Some(None);
            break 'outer;
        }
        let choice = if k < prefix.len() {
            if let Some(want) = expect.get(k) {
                if *want != enabled_names {
                    let _ = child.kill();
                    let _ = child.wait();
                    machinery_error(format!("tsched: nondeterministic replay at point {k}: announced {enabled_names:?}, the recorded execution had {want:?}"));
                }
            }
            prefix[k] as usize
        } else {
            0
        };
        if choice >= order.len() {
            let _ = child.kill();
            let _ = child.wait();
            machinery_error(format!("tsched: choice {choice} out of range at point {k} ({enabled_names:?})"));
        }
        let pick = order[choice];
        let is_preempt = cur_pos.is_some() && choice != 0;
        ex.points.push(TPoint { enabled: enabled_names, chosen: choice as u8, current_enabled: cur_pos.is_some(), preemptions_before: preemptions });
        if is_preempt {
            preemptions += 1;
        }
        ex.choices.push(choice as u8);
        ex.labels.push(names[pick].clone());
        current = Some(en[pick].0.clone());
        let ci = en[pick].3;
        conns[ci].pending = None;
        if conns[ci].stream.write_all(b"GO\n").is_err() {
            machinery_error("tsched: cannot release a parked thread");
        }
        ex.steps += 1;
        if ex.steps > 20_000 {
            let _ = child.kill();
            let _ = child.wait();
            machinery_error("tsched: more than 20 000 steps");
        }
    }
    ex.out = CliOut { code: exit_code.flatten(), stdout: std::fs::read_to_string(&of).unwrap_or_default(), stderr: std::fs::read_to_string(&ef).unwrap_or_default() };
    ex
}

pub struct TOut {
    pub schedules: u64,
    pub steps: u64,
    pub violations: Vec<Violation>,
    pub outcomes: BTreeSet<String>,
    pub max_points: usize,
    pub max_parked: usize,
    pub threads: usize,
    pub completion_orders: BTreeSet<String>,
    pub capped: bool,
}

/// order in which the transfers' renames were released
fn completion_order(ex: &TExec) -> String {
    ex.labels.iter().filter(|l| l.contains("|rename|")).map(|l| l.split('|').next().unwrap_or("")).collect::<Vec<_>>().join(" < ")
}

pub fn explore_local(c: &Cfg, names: &[&str], bound: u32, workers: usize, cap: u64, nthreads: usize) -> TOut {
    let queue: Mutex<Vec<(Vec<u8>, Vec<Vec<String>>)>> = Mutex::new(vec![(Vec::new(), Vec::new())]);
    let busy = AtomicU64::new(0);
    let schedules = AtomicU64::new(0);
    let steps = AtomicU64::new(0);
    let maxp = AtomicU64::new(0);
    let maxparked = AtomicU64::new(0);
    let threads = AtomicU64::new(0);
    let viols: Mutex<Vec<Violation>> = Mutex::new(Vec::new());
    let outcomes: Mutex<BTreeSet<String>> = Mutex::new(BTreeSet::new());
    let orders: Mutex<BTreeSet<String>> = Mutex::new(BTreeSet::new());
    std::thread::scope(|sc| {
        for w in 0..nthreads {
            let (queue, busy, schedules, steps, maxp, maxparked, threads, viols, outcomes, orders) = (&queue, &busy, &schedules, &steps, &maxp, &maxparked, &threads, &viols, &outcomes, &orders);
            sc.spawn(move || loop {
                let job = {
                    let mut q = queue.lock().unwrap_or_else(|e| e.into_inner());
                    let j = q.pop();
                    if j.is_some() {
                        busy.fetch_add(1, Ordering::SeqCst);
                    }
                    j
                };
                let Some((prefix, expect)) = job else {
                    if busy.load(Ordering::SeqCst) == 0 {
                        break;
                    }
                    std::thread::sleep(std::time::Duration::from_micros(300));
                    continue;
                };
                if schedules.load(Ordering::Relaxed) >= cap {
                    busy.fetch_sub(1, Ordering::SeqCst);
                    continue;
                }
                let p = prepare(c, names, &format!("e6-{w}"));
                let ex = run_tsched(&p, c, &prefix, &expect, workers);
                schedules.fetch_add(1, Ordering::Relaxed);
                steps.fetch_add(ex.steps as u64, Ordering::Relaxed);
                maxp.fetch_max(ex.points.len() as u64, Ordering::Relaxed);
                maxparked.fetch_max(ex.max_parked as u64, Ordering::Relaxed);
                threads.fetch_max(ex.threads as u64, Ordering::Relaxed);
                let (d1, _) = crate::e5::snap(&p.env.dst());
                let outcome = format!("exit={:?} dst={:?}", ex.out.code, d1.iter().map(|(k, e)| (k.clone(), e.bytes.len(), e.secs)).collect::<Vec<_>>());
                if let Ok(mut o) = outcomes.lock() {
                    o.insert(outcome);
                }
                if let Ok(mut o) = orders.lock() {
                    o.insert(completion_order(&ex));
                }
                if let Some((k, m, path)) = c04_oracle(c, &p, &ex.out) {
                    let v = Violation::new(&k, format!("[{} under the thread scheduler, completion order {}] exit {:?}: {m}; stderr tail: {}", cfg_name(c), completion_order(&ex), ex.out.code, ex.out.stderr.lines().last().unwrap_or("")), json!({"config": cfg_name(c), "path": path, "tsched": {"choices": ex.choices, "workers": workers, "labels": ex.labels}}))
                        .with("direction", json!("local"))
                        .with("engine", json!("tsched"));
                    if let Ok(mut g) = viols.lock() {
                        g.push(v);
                    }
                }
                let mut kids = Vec::new();
                for i in prefix.len()..ex.points.len() {
                    let pt = &ex.points[i];
                    for alt in 1..pt.enabled.len() {
                        let cost = pt.preemptions_before + u32::from(pt.current_enabled);
                        if cost <= bound {
                            let mut ch = ex.choices[..i].to_vec();
                            ch.push(alt as u8);
                            let exp: Vec<Vec<String>> = ex.points[..=i].iter().map(|q| q.enabled.clone()).collect();
                            kids.push((ch, exp));
                        }
                    }
                }
                {
                    let mut q = queue.lock().unwrap_or_else(|e| e.into_inner());
                    q.extend(kids);
                }
                busy.fetch_sub(1, Ordering::SeqCst);
            });
        }
    });
    let n = schedules.load(Ordering::Relaxed);
    TOut { schedules: n, steps: steps.load(Ordering::Relaxed), violations: viols.into_inner().unwrap_or_default(), outcomes: outcomes.into_inner().unwrap_or_default(), max_points: maxp.load(Ordering::Relaxed) as usize, max_parked: maxparked.load(Ordering::Relaxed) as usize, threads: threads.load(Ordering::Relaxed) as usize, completion_orders: orders.into_inner().unwrap_or_default(), capped: n >= cap }
}

/// Replay one recorded tsched schedule (twice) and return the oracle's verdict.
pub fn replay_local(c: &Cfg, names: &[&str], detail: &Value) -> Vec<Violation> {
    let choices: Vec<u8> = detail["tsched"]["choices"].as_array().map(|a| a.iter().filter_map(|x| x.as_u64().map(|y| y as u8)).collect()).unwrap_or_default();
    let workers = detail["tsched"]["workers"].as_u64().unwrap_or(1) as usize;
    let mut out = Vec::new();
    let mut labels: Vec<Vec<String>> = Vec::new();
    for _ in 0..2 {
        let p = prepare(c, names, "e6-replay");
        let ex = run_tsched(&p, c, &choices, &[], workers);
        labels.push(ex.labels.clone());
        if let Some((k, m, path)) = c04_oracle(c, &p, &ex.out) {
            out.push(Violation::new(&k, format!("[{} replayed under the thread scheduler, completion order {}] exit {:?}: {m}", cfg_name(c), completion_order(&ex), ex.out.code), json!({"config": cfg_name(c), "path": path, "tsched": {"choices": ex.choices, "workers": workers, "labels": ex.labels}})).with("direction", json!("local")).with("engine", json!("tsched")));
        }
    }
    if labels[0] != labels[1] {
        machinery_error("tsched replay: the same choices produced two different executions");
    }
    out.truncate(1);
    out
}

/// C09, local direction with parallel transfers: for every schedule within the preemption bound and EVERY point of
/// it, the process is killed at that point; every destination path then holds its complete old or its complete new
/// content and nothing outside the plan changed; the same command run again (free-running) delivers the plan.
pub fn explore_local_kills(c: &Cfg, names: &[&str], bound: u32, workers: usize, cap: u64, nthreads: usize) -> (u64, u64, Vec<Violation>) {
    // first collect the schedules (choices + expected enabled sets) with the ordinary explorer's recursion
    let mut schedules: Vec<(Vec<u8>, Vec<Vec<String>>, usize)> = Vec::new();
    let mut queue: Vec<(Vec<u8>, Vec<Vec<String>>)> = vec![(Vec::new(), Vec::new())];
    while let Some((prefix, expect)) = queue.pop() {
        if schedules.len() as u64 >= cap {
            break;
        }
        let p = prepare(c, names, "e6k");
        let ex = run_tsched(&p, c, &prefix, &expect, workers);
        for i in prefix.len()..ex.points.len() {
            let pt = &ex.points[i];
            for alt in 1..pt.enabled.len() {
                if pt.preemptions_before + u32::from(pt.current_enabled) <= bound {
                    let mut ch = ex.choices[..i].to_vec();
                    ch.push(alt as u8);
                    queue.push((ch, ex.points[..=i].iter().map(|q| q.enabled.clone()).collect()));
                }
            }
        }
        let all_exp: Vec<Vec<String>> = ex.points.iter().map(|q| q.enabled.clone()).collect();
        schedules.push((ex.choices.clone(), all_exp, prefix.len()));
    }
    // does the command complete at all on this tree when nothing interferes? (names the staging suffix pushes past
    // NAME_MAX make it fail with a report — then a re-run after a crash fails the same way, which is no violation)
    let baseline_ok = {
        let p = prepare(c, names, "e6k");
        crate::e5::run_sync(&p.env, c, &[], None).code == Some(0)
    };
    // kill points: for each schedule, the points from its own deviation onwards (earlier ones belong to its parent)
    let jobs: Vec<(usize, usize)> = schedules.iter().enumerate().flat_map(|(si, (ch, _, from))| (*from..=ch.len()).map(move |k| (si, k))).collect();
    let next = AtomicU64::new(0);
    let viols: Mutex<Vec<Violation>> = Mutex::new(Vec::new());
    let nontrivial = AtomicU64::new(0);
    std::thread::scope(|sc| {
        for _ in 0..nthreads {
            sc.spawn(|| loop {
                let i = next.fetch_add(1, Ordering::Relaxed) as usize;
                if i >= jobs.len() {
                    break;
                }
                let (si, k) = jobs[i];
                let (choices, expect, _) = &schedules[si];
                if k >= choices.len() {
                    continue; // after the last point the process just exits
                }
                let p = prepare(c, names, "e6k");
                let ex = run_tsched_kill(&p, c, &choices[..k.min(choices.len())], &expect[..k.min(expect.len())], workers, Some(k));
                if ex.killed_at.is_none() {
                    continue;
                }
                let (d1, _) = crate::e5::snap(&p.env.dst());
                let (s1, _) = crate::e5::snap(&p.env.src());
                let det = json!({"config": cfg_name(c), "tsched_kill": {"choices": &choices[..k], "kill_point": k, "workers": workers}});
                let what = format!("[{} under the thread scheduler, killed at point {k} with {:?} announced]", cfg_name(c), ex.killed_at.as_ref().map(|x| x.1.clone()).unwrap_or_default());
                let mut bad: Option<(String, String)> = None;
                if s1 != p.src0.0 {
                    bad = Some(("source_modified".into(), "the source tree changed".into()));
                }
                if d1 != p.dst0.0 {
                    nontrivial.fetch_add(1, Ordering::Relaxed);
                }
                for (path, e) in d1.iter().filter(|(k, _)| !k.ends_with(".copia-tmp")) {
                    let old = p.dst0.0.get(path);
                    let new = p.src0.0.get(path);
                    let ok = old.is_some_and(|o| o.bytes == e.bytes) || new.is_some_and(|n| n.bytes == e.bytes);
                    if !ok {
                        bad = Some(("mixed_destination".into(), format!("destination {path} holds {} bytes: neither its pre-run content nor the source's", e.bytes.len())));
                    }
                }
                for (path, e0) in &p.dst0.0 {
                    if !p.src0.0.contains_key(path) && !c.delete && d1.get(path).map(|e| &e.bytes) != Some(&e0.bytes) {
                        bad = Some(("outside_plan_touched".into(), format!("destination-only {path} changed although --delete was not given")));
                    }
                    if p.src0.0.contains_key(path) && !d1.contains_key(path) {
                        bad = Some(("destination_removed".into(), format!("destination {path} existed before the run and is gone")));
                    }
                }
                if bad.is_none() {
                    // the same command again, free-running: must complete and deliver the plan (judged against the ORIGINAL pre-state)
                    let out = crate::e5::run_sync(&p.env, c, &[], None);
                    if out.code != Some(0) && !baseline_ok {
                        // same reported failure as an uninterrupted run; still nothing mixed may be left behind
                        let (d2, _) = crate::e5::snap(&p.env.dst());
                        for (path, e) in d2.iter().filter(|(k, _)| !k.ends_with(".copia-tmp")) {
                            let ok = p.dst0.0.get(path).is_some_and(|o| o.bytes == e.bytes) || p.src0.0.get(path).is_some_and(|n| n.bytes == e.bytes);
                            if !ok {
                                bad = Some(("mixed_destination".into(), format!("after the (failing) re-run destination {path} holds {} bytes: neither its pre-run content nor the source's", e.bytes.len())));
                            }
                        }
                    } else if out.code != Some(0) {
                        bad = Some(("rerun_fails".into(), format!("running the same command again exits {:?}: {}", out.code, out.stderr.lines().last().unwrap_or(""))));
                    } else {
                        let (d2, _) = crate::e5::snap(&p.env.dst());
                        for (path, sv) in &p.src0.0 {
                            if d2.get(path).map(|e| (&e.bytes, e.secs)) != Some((&sv.bytes, sv.secs)) && !(p.dst0.0.get(path).is_some_and(|o| o.bytes.len() == sv.bytes.len() && o.secs == sv.secs)) {
                                bad = Some(("rerun_differs".into(), format!("after the re-run destination {path} is not the source's content and mtime")));
                            }
                        }
                        if d2.keys().any(|k| k.ends_with(".copia-tmp")) {
                            bad = Some(("staging_left_behind".into(), "a staging file survives the completed re-run".into()));
                        }
                    }
                }
                if let Some((kind, m)) = bad {
                    if let Ok(mut g) = viols.lock() {
                        if g.len() < 4 {
                            g.push(Violation::new(&kind, format!("{what}: {m}"), det).with("direction", json!("local")).with("engine", json!("tsched-kill")));
                        }
                    }
                }
            });
        }
    });
    (schedules.len() as u64, jobs.len() as u64, viols.into_inner().unwrap_or_default())
}
