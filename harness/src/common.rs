//! Shared machinery: tiers, evidence writer, violation / known-finding handling,
//! counting allocator, seeded data generator, scratch directories.

use serde_json::{json, Map, Value};
use std::alloc::{GlobalAlloc, Layout, System};
use std::cell::Cell;
use std::path::{Path, PathBuf};
use std::time::Instant;

// ───────────────────────── counting allocator ─────────────────────────

pub struct CountingAlloc;

thread_local! {
    static MAX_SINGLE: Cell<usize> = const { Cell::new(0) };
    static LIVE: Cell<isize> = const { Cell::new(0) };
    static PEAK: Cell<isize> = const { Cell::new(0) };
    static TRACK: Cell<bool> = const { Cell::new(false) };
}

unsafe impl GlobalAlloc for CountingAlloc {
    unsafe fn alloc(&self, l: Layout) -> *mut u8 {
        note_alloc(l.size());
        System.alloc(l)
    }
    unsafe fn alloc_zeroed(&self, l: Layout) -> *mut u8 {
        note_alloc(l.size());
        System.alloc_zeroed(l)
    }
    unsafe fn dealloc(&self, p: *mut u8, l: Layout) {
        note_free(l.size());
        System.dealloc(p, l)
    }
    unsafe fn realloc(&self, p: *mut u8, l: Layout, new: usize) -> *mut u8 {
        note_free(l.size());
        note_alloc(new);
        System.realloc(p, l, new)
    }
}

#[inline]
fn note_alloc(sz: usize) {
    let _ = TRACK.try_with(|t| {
        if t.get() {
            let _ = MAX_SINGLE.try_with(|m| {
                if sz > m.get() {
                    m.set(sz)
                }
            });
            let _ = LIVE.try_with(|lv| {
                let v = lv.get() + sz as isize;
                lv.set(v);
                let _ = PEAK.try_with(|p| {
                    if v > p.get() {
                        p.set(v)
                    }
                });
            });
        }
    });
}
#[inline]
fn note_free(sz: usize) {
    let _ = TRACK.try_with(|t| {
        if t.get() {
            let _ = LIVE.try_with(|lv| lv.set(lv.get() - sz as isize));
        }
    });
}

/// Run `f` on this thread while recording the largest single allocation request
/// and the peak of live bytes allocated by this thread during the call.
pub fn with_alloc_tracking<T>(f: impl FnOnce() -> T) -> (T, usize, usize) {
    MAX_SINGLE.with(|m| m.set(0));
    LIVE.with(|m| m.set(0));
    PEAK.with(|m| m.set(0));
    TRACK.with(|t| t.set(true));
    let out = f();
    TRACK.with(|t| t.set(false));
    let ms = MAX_SINGLE.with(|m| m.get());
    let pk = PEAK.with(|m| m.get()).max(0) as usize;
    (out, ms, pk)
}

// ───────────────────────── tiers / context ─────────────────────────

#[derive(Clone, Copy, PartialEq, Eq, Debug)]
pub enum Tier {
    Quick,
    Thorough,
}

impl Tier {
    pub fn name(self) -> &'static str {
        match self {
            Tier::Quick => "quick",
            Tier::Thorough => "thorough",
        }
    }
    pub fn is_thorough(self) -> bool {
        self == Tier::Thorough
    }
}

pub struct Ctx {
    pub id: String,
    pub tier: Tier,
    pub seed: u64,
    pub start: Instant,
    pub replay: Option<PathBuf>,
}

impl Ctx {
    pub fn elapsed(&self) -> f64 {
        self.start.elapsed().as_secs_f64()
    }
}

pub const VERIF: &str = "/verif";

// ───────────────────────── violations ─────────────────────────

#[derive(Clone, Debug)]
pub struct Violation {
    /// Classification: a `kind` string plus the fields a known-finding signature
    /// may match on (subset equality).
    pub sig: Value,
    /// One-line human summary.
    pub summary: String,
    /// Everything needed to re-execute the case (`--replay`).
    pub detail: Value,
}

impl Violation {
    pub fn new(kind: &str, summary: impl Into<String>, detail: Value) -> Self {
        Self {
            sig: json!({ "kind": kind }),
            summary: summary.into(),
            detail,
        }
    }
    pub fn with(mut self, k: &str, v: Value) -> Self {
        if let Value::Object(m) = &mut self.sig {
            m.insert(k.to_string(), v);
        }
        self
    }
    pub fn kind(&self) -> &str {
        self.sig.get("kind").and_then(Value::as_str).unwrap_or("?")
    }
}

// ───────────────────────── evidence ─────────────────────────

pub struct Report {
    pub level: &'static str,
    pub coverage: Map<String, Value>,
    pub assumptions: Vec<String>,
}

impl Report {
    pub fn new(level: &'static str) -> Self {
        Self {
            level,
            coverage: Map::new(),
            assumptions: Vec::new(),
        }
    }
    pub fn set(&mut self, k: &str, v: impl Into<Value>) -> &mut Self {
        self.coverage.insert(k.to_string(), v.into());
        self
    }
    pub fn assume(&mut self, s: impl Into<String>) -> &mut Self {
        self.assumptions.push(s.into());
        self
    }
    pub fn add_u64(&mut self, k: &str, n: u64) {
        let cur = self.coverage.get(k).and_then(Value::as_u64).unwrap_or(0);
        self.coverage.insert(k.to_string(), Value::from(cur + n));
    }
}

fn known_findings() -> Vec<Value> {
    let p = Path::new(VERIF).join("known_findings.json");
    let Ok(bytes) = std::fs::read(&p) else {
        return Vec::new();
    };
    match serde_json::from_slice::<Value>(&bytes) {
        Ok(Value::Object(m)) => m
            .get("findings")
            .and_then(Value::as_array)
            .cloned()
            .unwrap_or_default(),
        _ => {
            eprintln!("MACHINERY-ERROR: known_findings.json does not parse");
            std::process::exit(2);
        }
    }
}

/// Subset match: every key of `pat` must be present in `sig` with an equal value.
fn sig_matches(pat: &Value, sig: &Value) -> bool {
    match (pat, sig) {
        (Value::Object(p), Value::Object(s)) => p.iter().all(|(k, v)| s.get(k) == Some(v)),
        _ => false,
    }
}

fn digest_of(v: &Value) -> String {
    let s = serde_json::to_vec(v).unwrap_or_default();
    blake3::hash(&s).to_hex()[..16].to_string()
}

/// Write evidence, print verdict lines, and exit with the contract's status.
pub fn finish(ctx: &Ctx, mut report: Report, violations: Vec<Violation>) -> ! {
    let known = known_findings();
    let mut unknown = 0usize;
    let mut known_hits: Vec<(String, usize)> = Vec::new();
    let rdir = Path::new(VERIF).join("replays").join(&ctx.id);
    let _ = std::fs::create_dir_all(&rdir);
    let mut printed = 0usize;
    let mut distinct_kinds: std::collections::BTreeMap<String, usize> = Default::default();
    for v in &violations {
        *distinct_kinds.entry(v.kind().to_string()).or_default() += 1;
        let hit = known.iter().find(|k| {
            k.get("status").and_then(Value::as_str) == Some("known")
                && k.get("property").and_then(Value::as_str) == Some(ctx.id.as_str())
                && k.get("match").is_some_and(|m| sig_matches(m, &v.sig))
        });
        if let Some(k) = hit {
            let what = k
                .get("what")
                .and_then(Value::as_str)
                .unwrap_or("(undescribed)")
                .to_string();
            if let Some(e) = known_hits.iter_mut().find(|(w, _)| *w == what) {
                e.1 += 1;
            } else {
                known_hits.push((what, 1));
            }
            continue;
        }
        unknown += 1;
        if printed < 20 {
            let body = json!({
                "property": ctx.id, "tier": ctx.tier.name(), "seed": ctx.seed,
                "sig": v.sig, "summary": v.summary, "detail": v.detail,
            });
            let path = rdir.join(format!("{}.json", digest_of(&body)));
            let _ = std::fs::write(&path, serde_json::to_vec_pretty(&body).unwrap_or_default());
            println!("VIOLATION property={} replay={}", ctx.id, path.display());
            eprintln!("  -> [{}] {}", v.kind(), v.summary);
            printed += 1;
        }
    }
    for (what, n) in &known_hits {
        println!(
            "KNOWN-FINDING: property={} {} ({} case(s) this run)",
            ctx.id, what, n
        );
    }
    report.set("violation_kinds", json!(distinct_kinds));
    report.set(
        "known_finding_cases",
        known_hits.iter().map(|(_, n)| *n as u64).sum::<u64>(),
    );
    let ev = json!({
        "property_id": ctx.id,
        "tier": ctx.tier.name(),
        "seed": ctx.seed,
        "level": report.level,
        "coverage": Value::Object(report.coverage),
        "assumptions": report.assumptions,
        "wall_s": (ctx.elapsed() * 1000.0).round() / 1000.0,
        "violations": unknown,
    });
    let edir = Path::new(VERIF).join("evidence");
    let _ = std::fs::create_dir_all(&edir);
    let epath = edir.join(format!("{}.json", ctx.id));
    if let Err(e) = std::fs::write(&epath, serde_json::to_vec_pretty(&ev).unwrap_or_default()) {
        eprintln!("MACHINERY-ERROR: cannot write evidence {}: {e}", epath.display());
        std::process::exit(2);
    }
    eprintln!(
        "[{}] tier={} wall={:.1}s violations={} known={} evidence={}",
        ctx.id,
        ctx.tier.name(),
        ctx.elapsed(),
        unknown,
        known_hits.len(),
        epath.display()
    );
    sweep_scratch(true);
    std::process::exit(if unknown > 0 { 1 } else { 0 });
}

pub fn machinery_error(msg: impl AsRef<str>) -> ! {
    eprintln!("MACHINERY-ERROR: {}", msg.as_ref());
    std::process::exit(2);
}

// ───────────────────────── seeded data ─────────────────────────

#[derive(Clone)]
pub struct Rng(pub u64);
impl Rng {
    pub fn new(seed: u64) -> Self {
        Self(seed ^ 0x9E37_79B9_7F4A_7C15)
    }
    pub fn next(&mut self) -> u64 {
        self.0 = self.0.wrapping_add(0x9E37_79B9_7F4A_7C15);
        let mut z = self.0;
        z = (z ^ (z >> 30)).wrapping_mul(0xBF58_476D_1CE4_E5B9);
        z = (z ^ (z >> 27)).wrapping_mul(0x94D0_49BB_1331_11EB);
        z ^ (z >> 31)
    }
    pub fn bytes(&mut self, n: usize) -> Vec<u8> {
        let mut v = Vec::with_capacity(n + 8);
        while v.len() < n {
            v.extend_from_slice(&self.next().to_le_bytes());
        }
        v.truncate(n);
        v
    }
}

pub fn hex(b: &[u8]) -> String {
    use std::fmt::Write;
    let mut s = String::with_capacity(b.len() * 2);
    for x in b {
        let _ = write!(s, "{x:02x}");
    }
    s
}

pub fn unhex(s: &str) -> Vec<u8> {
    (0..s.len() / 2)
        .filter_map(|i| u8::from_str_radix(&s[2 * i..2 * i + 2], 16).ok())
        .collect()
}

/// Short printable description of a byte string for samples / summaries.
pub fn show_bytes(b: &[u8]) -> String {
    if b.len() <= 24 {
        hex(b)
    } else {
        format!("{}…({} bytes, blake3 {})", hex(&b[..8]), b.len(), &blake3::hash(b).to_hex()[..12])
    }
}

// ───────────────────────── scratch ─────────────────────────

pub struct Scratch {
    pub root: PathBuf,
}
impl Scratch {
    pub fn new(tag: &str) -> Self {
        use std::sync::atomic::{AtomicU64, Ordering};
        static N: AtomicU64 = AtomicU64::new(0);
        let n = N.fetch_add(1, Ordering::Relaxed);
        let root = PathBuf::from(format!("/dev/shm/vh-{}-{}-{}", std::process::id(), tag, n));
        let _ = std::fs::remove_dir_all(&root);
        if let Err(e) = std::fs::create_dir_all(&root) {
            machinery_error(format!("cannot create scratch {}: {e}", root.display()));
        }
        Self { root }
    }
    pub fn path(&self, rel: &str) -> PathBuf {
        self.root.join(rel)
    }
}
/// Remove scratch directories of vh processes that no longer exist (runs end through `process::exit`, which
/// skips destructors) and, at the end of a run, this process's own.
pub fn sweep_scratch(own_too: bool) {
    let me = std::process::id();
    let Ok(rd) = std::fs::read_dir("/dev/shm") else { return };
    for e in rd.flatten() {
        let name = e.file_name().to_string_lossy().into_owned();
        let Some(rest) = name.strip_prefix("vh-") else { continue };
        let Some(pid) = rest.split('-').next().and_then(|p| p.parse::<u32>().ok()) else { continue };
        let alive = std::path::Path::new(&format!("/proc/{pid}")).exists();
        if (pid == me && own_too) || (pid != me && !alive) {
            let _ = std::fs::remove_dir_all(e.path());
        }
    }
}

impl Drop for Scratch {
    fn drop(&mut self) {
        let _ = std::fs::remove_dir_all(&self.root);
    }
}

/// Catch a panic and return its message.
pub fn catch<T>(f: impl FnOnce() -> T + std::panic::UnwindSafe) -> Result<T, String> {
    std::panic::catch_unwind(f).map_err(|e| {
        if let Some(s) = e.downcast_ref::<&str>() {
            (*s).to_string()
        } else if let Some(s) = e.downcast_ref::<String>() {
            s.clone()
        } else {
            "panic (non-string payload)".to_string()
        }
    })
}

pub fn cli_bin() -> PathBuf {
    PathBuf::from(
        std::env::var("VH_COPIA_BIN")
            .unwrap_or_else(|_| "/verif/build/target-cli/release/copia".to_string()),
    )
}

/// Run the built CLI under RLIMIT_AS = 1 GiB with a wall-clock timeout.
/// Returns (exit code, signal, timed out, stderr).
pub fn run_limited(args: &[std::ffi::OsString], timeout_s: u64) -> (Option<i32>, Option<i32>, bool, String) {
    use std::os::unix::process::{CommandExt, ExitStatusExt};
    let mut cmd = std::process::Command::new(cli_bin());
    cmd.args(args).env("RUST_LOG", "off").env("MALLOC_ARENA_MAX", "1").env("TOKIO_WORKER_THREADS", "2").stdin(std::process::Stdio::null()).stdout(std::process::Stdio::null()).stderr(std::process::Stdio::piped());
    unsafe {
        cmd.pre_exec(|| {
            let lim = libc::rlimit { rlim_cur: 1 << 30, rlim_max: 1 << 30 };
            libc::setrlimit(libc::RLIMIT_AS, &lim);
            Ok(())
        });
    }
    let mut child = cmd.spawn().unwrap_or_else(|e| machinery_error(format!("spawn copia: {e}")));
    let start = std::time::Instant::now();
    loop {
        match child.try_wait() {
            Ok(Some(st)) => {
                let mut err = String::new();
                if let Some(mut e) = child.stderr.take() {
                    use std::io::Read;
                    let _ = e.read_to_string(&mut err);
                }
                return (st.code(), st.signal(), false, err);
            }
            Ok(None) => {
                if start.elapsed().as_secs() >= timeout_s {
                    let _ = child.kill();
                    let _ = child.wait();
                    return (None, None, true, String::new());
                }
                std::thread::sleep(std::time::Duration::from_millis(2));
            }
            Err(e) => machinery_error(format!("wait: {e}")),
        }
    }
}


/// Run a command to completion with a wall-clock limit; on expiry the child is killed and
/// `None` is returned as the exit code with "TIMEOUT" appended to stderr.
pub fn output_with_timeout(cmd: &mut std::process::Command, secs: u64) -> (Option<i32>, Vec<u8>, Vec<u8>) {
    use std::io::Read;
    cmd.stdin(std::process::Stdio::null()).stdout(std::process::Stdio::piped()).stderr(std::process::Stdio::piped());
    let mut child = cmd.spawn().unwrap_or_else(|e| machinery_error(format!("spawn: {e}")));
    let mut so = child.stdout.take();
    let mut se = child.stderr.take();
    let t1 = std::thread::spawn(move || {
        let mut b = Vec::new();
        if let Some(s) = so.as_mut() {
            let _ = s.read_to_end(&mut b);
        }
        b
    });
    let t2 = std::thread::spawn(move || {
        let mut b = Vec::new();
        if let Some(s) = se.as_mut() {
            let _ = s.read_to_end(&mut b);
        }
        b
    });
    let start = std::time::Instant::now();
    let mut timed_out = false;
    let code = loop {
        match child.try_wait() {
            Ok(Some(st)) => break st.code(),
            Ok(None) => {
                if start.elapsed().as_secs() >= secs {
                    timed_out = true;
                    let _ = child.kill();
                    let _ = child.wait();
                    break None;
                }
                std::thread::sleep(std::time::Duration::from_millis(1));
            }
            Err(_) => break None,
        }
    };
    let out = t1.join().unwrap_or_default();
    let mut err = t2.join().unwrap_or_default();
    if timed_out {
        err.extend_from_slice(b"\nTIMEOUT: the command did not finish and was killed by the harness");
    }
    (code, out, err)
}
