//! C05 — patch never reports success on wrong bytes (and never crashes):
//! all single and pairwise mutations of valid (basis, delta) pairs, both engines + CLI.

use crate::common::*;
use crate::deltacases::*;
use copia::async_sync::AsyncCopiaSync;
use copia::{CopiaSync, Delta, DeltaOp, Signature, StrongHash, Sync as _};
use rayon::prelude::*;
use serde::{Deserialize, Serialize};
use serde_json::{json, Value};
use std::io::{Cursor, Read, Seek, SeekFrom};
use std::sync::atomic::{AtomicU64, Ordering};

#[derive(Clone, Debug, Serialize, Deserialize, PartialEq)]
pub enum Mut {
    BasisOther(usize),
    BasisTrunc(usize),
    BasisExtend(usize),
    BasisFlip(usize),
    CopyOff(usize, String),
    CopyLen(usize, String),
    DropOp(usize),
    DupOp(usize),
    SwapOp(usize),
    Reverse,
    LitFlip(usize, bool),
    LitTrunc(usize),
    LitExtend(usize),
    SrcSize(String),
    BasisSize(String),
    BlockSize(u32),
    Checksum(String),
}

fn menu(basis: &[u8], delta: &Delta, n_other: usize, b: usize, small: bool) -> Vec<Mut> {
    let mut m = Vec::new();
    if small {
        for i in 0..n_other {
            m.push(Mut::BasisOther(i));
        }
        for n in 0..basis.len() {
            m.push(Mut::BasisTrunc(n));
        }
        for bit in 0..basis.len() * 8 {
            m.push(Mut::BasisFlip(bit));
        }
    } else {
        for n in [0, 1, b - 1, b, basis.len() / 2, basis.len().saturating_sub(1)] {
            if n < basis.len() {
                m.push(Mut::BasisTrunc(n));
            }
        }
        for c in 0..basis.len().div_ceil(b) {
            m.push(Mut::BasisFlip((c * b + (b / 3).min(basis.len() - c * b - 1)) * 8 + 3));
        }
    }
    m.push(Mut::BasisExtend(1));
    m.push(Mut::BasisExtend(b));
    for (i, op) in delta.ops.iter().enumerate() {
        match op {
            DeltaOp::Copy { .. } => {
                for k in ["+1", "-1", "+B", "-B", "basis_size", "max"] {
                    m.push(Mut::CopyOff(i, k.into()));
                }
                for k in ["0", "+1", "-1", "max"] {
                    m.push(Mut::CopyLen(i, k.into()));
                }
            }
            DeltaOp::Literal(_) => {
                m.push(Mut::LitFlip(i, true));
                m.push(Mut::LitFlip(i, false));
                m.push(Mut::LitTrunc(i));
                m.push(Mut::LitExtend(i));
            }
        }
        m.push(Mut::DropOp(i));
        m.push(Mut::DupOp(i));
        if i + 1 < delta.ops.len() {
            m.push(Mut::SwapOp(i));
        }
    }
    if delta.ops.len() > 1 {
        m.push(Mut::Reverse);
    }
    for k in ["0", "+1", "-1", "max"] {
        m.push(Mut::SrcSize(k.into()));
    }
    for k in ["0", "+1", "-1", "actual", "max"] {
        m.push(Mut::BasisSize(k.into()));
    }
    for v in [0u32, 1, 3] {
        m.push(Mut::BlockSize(v));
    }
    for k in ["zero", "flip:0", "flip:5", "flip:8", "flip:16", "flip:31", "of_basis"] {
        m.push(Mut::Checksum(k.into()));
    }
    m
}

/// Apply one mutation to the current (basis, delta). Returns false if not applicable any more.
fn apply(mu: &Mut, basis: &mut Vec<u8>, delta: &mut Delta, others: &[Vec<u8>], b: usize) -> bool {
    let adj64 = |v: u64, k: &str, bsz: u64, actual: u64| -> u64 {
        match k {
            "0" => 0,
            "+1" => v.wrapping_add(1),
            "-1" => v.wrapping_sub(1),
            "+B" => v.wrapping_add(b as u64),
            "-B" => v.wrapping_sub(b as u64),
            "basis_size" => bsz,
            "actual" => actual,
            "max" => u64::MAX,
            _ => v,
        }
    };
    match mu {
        Mut::BasisOther(i) => match others.get(*i) {
            Some(o) if o != basis => *basis = o.clone(),
            _ => return false,
        },
        Mut::BasisTrunc(n) => {
            if *n >= basis.len() {
                return false;
            }
            basis.truncate(*n)
        }
        Mut::BasisExtend(n) => basis.extend(std::iter::repeat(0xA5u8).take(*n)),
        Mut::BasisFlip(bit) => {
            if bit / 8 >= basis.len() {
                return false;
            }
            basis[bit / 8] ^= 1 << (bit % 8)
        }
        Mut::CopyOff(i, k) => match delta.ops.get_mut(*i) {
            Some(DeltaOp::Copy { offset, .. }) => *offset = adj64(*offset, k, delta.basis_size, 0),
            _ => return false,
        },
        Mut::CopyLen(i, k) => match delta.ops.get_mut(*i) {
            Some(DeltaOp::Copy { len, .. }) => {
                *len = match k.as_str() {
                    "0" => 0,
                    "+1" => len.wrapping_add(1),
                    "-1" => len.wrapping_sub(1),
                    _ => u32::MAX,
                }
            }
            _ => return false,
        },
        Mut::DropOp(i) => {
            if *i >= delta.ops.len() {
                return false;
            }
            delta.ops.remove(*i);
        }
        Mut::DupOp(i) => {
            if *i >= delta.ops.len() {
                return false;
            }
            let o = delta.ops[*i].clone();
            delta.ops.insert(*i, o);
        }
        Mut::SwapOp(i) => {
            if *i + 1 >= delta.ops.len() {
                return false;
            }
            delta.ops.swap(*i, *i + 1);
        }
        Mut::Reverse => delta.ops.reverse(),
        Mut::LitFlip(i, first) => match delta.ops.get_mut(*i) {
            Some(DeltaOp::Literal(d)) if !d.is_empty() => {
                let j = if *first { 0 } else { d.len() - 1 };
                d[j] ^= 0x10;
            }
            _ => return false,
        },
        Mut::LitTrunc(i) => match delta.ops.get_mut(*i) {
            Some(DeltaOp::Literal(d)) if !d.is_empty() => {
                d.pop();
            }
            _ => return false,
        },
        Mut::LitExtend(i) => match delta.ops.get_mut(*i) {
            Some(DeltaOp::Literal(d)) => d.push(0x77),
            _ => return false,
        },
        Mut::SrcSize(k) => delta.source_size = adj64(delta.source_size, k, 0, 0),
        Mut::BasisSize(k) => delta.basis_size = adj64(delta.basis_size, k, 0, basis.len() as u64),
        Mut::BlockSize(v) => delta.block_size = *v,
        Mut::Checksum(k) => {
            delta.checksum = match k.as_str() {
                "zero" => StrongHash::zero(),
                f if f.starts_with("flip") => {
                    let pos: usize = f.split(':').nth(1).and_then(|n| n.parse().ok()).unwrap_or(5);
                    let mut x = *delta.checksum.as_bytes();
                    x[pos % 32] ^= 0x04;
                    StrongHash::from_bytes(x)
                }
                _ => StrongHash::compute(basis),
            }
        }
    }
    true
}

const SPIN_LIMIT: usize = 20_000;

/// A basis that never serves bytes beyond its end and records what was asked of it.
/// A reader polled again and again at end-of-file is a spinning caller: panic (caught → violation).
struct Recorder<'a> {
    inner: Cursor<&'a [u8]>,
    max_req: u64,
    zero_reads: usize,
}
impl Read for Recorder<'_> {
    fn read(&mut self, buf: &mut [u8]) -> std::io::Result<usize> {
        let pos = self.inner.position();
        self.max_req = self.max_req.max(pos.saturating_add(buf.len() as u64));
        let n = self.inner.read(buf)?;
        if n == 0 && !buf.is_empty() {
            self.zero_reads += 1;
            if self.zero_reads > SPIN_LIMIT {
                panic!("SPIN: basis read at end-of-file {SPIN_LIMIT} times in a row");
            }
        } else {
            self.zero_reads = 0;
        }
        Ok(n)
    }
}
impl Seek for Recorder<'_> {
    fn seek(&mut self, p: SeekFrom) -> std::io::Result<u64> {
        self.inner.seek(p)
    }
}

struct ARecorder<'a> {
    inner: Cursor<&'a [u8]>,
    zero_reads: usize,
}
impl tokio::io::AsyncRead for ARecorder<'_> {
    fn poll_read(mut self: std::pin::Pin<&mut Self>, cx: &mut std::task::Context<'_>, buf: &mut tokio::io::ReadBuf<'_>) -> std::task::Poll<std::io::Result<()>> {
        let before = buf.filled().len();
        let want = buf.remaining();
        let r = std::pin::Pin::new(&mut self.inner).poll_read(cx, buf);
        if buf.filled().len() == before && want > 0 {
            self.zero_reads += 1;
            if self.zero_reads > SPIN_LIMIT {
                panic!("SPIN: basis read at end-of-file {SPIN_LIMIT} times in a row");
            }
        } else {
            self.zero_reads = 0;
        }
        r
    }
}
impl tokio::io::AsyncSeek for ARecorder<'_> {
    fn start_seek(mut self: std::pin::Pin<&mut Self>, p: SeekFrom) -> std::io::Result<()> {
        std::pin::Pin::new(&mut self.inner).start_seek(p)
    }
    fn poll_complete(mut self: std::pin::Pin<&mut Self>, cx: &mut std::task::Context<'_>) -> std::task::Poll<std::io::Result<u64>> {
        std::pin::Pin::new(&mut self.inner).poll_complete(cx)
    }
}

/// Output sink that accepts at most `max` bytes per write call (0 = unlimited).
struct ShortW {
    out: Vec<u8>,
    max: usize,
}
impl std::io::Write for ShortW {
    fn write(&mut self, buf: &[u8]) -> std::io::Result<usize> {
        let n = if self.max == 0 { buf.len() } else { buf.len().min(self.max) };
        self.out.extend_from_slice(&buf[..n]);
        Ok(n)
    }
    fn flush(&mut self) -> std::io::Result<()> {
        Ok(())
    }
}
impl tokio::io::AsyncWrite for ShortW {
    fn poll_write(mut self: std::pin::Pin<&mut Self>, _cx: &mut std::task::Context<'_>, buf: &[u8]) -> std::task::Poll<std::io::Result<usize>> {
        let n = if self.max == 0 { buf.len() } else { buf.len().min(self.max) };
        self.out.extend_from_slice(&buf[..n]);
        std::task::Poll::Ready(Ok(n))
    }
    fn poll_flush(self: std::pin::Pin<&mut Self>, _cx: &mut std::task::Context<'_>) -> std::task::Poll<std::io::Result<()>> {
        std::task::Poll::Ready(Ok(()))
    }
    fn poll_shutdown(self: std::pin::Pin<&mut Self>, _cx: &mut std::task::Context<'_>) -> std::task::Poll<std::io::Result<()>> {
        std::task::Poll::Ready(Ok(()))
    }
}

#[derive(Clone, Copy, PartialEq, Debug)]
enum Engine {
    Sync,
    Async,
}

/// Outcome of one patch call: (reported Ok?, output bytes). `short` = per-write byte limit of the sink.
fn patch_once(engine: Engine, basis: &[u8], delta: &Delta, short: usize) -> Result<(bool, Vec<u8>), String> {
    catch(std::panic::AssertUnwindSafe(|| {
        let mut sink = ShortW { out: Vec::new(), max: short };
        let ok = match engine {
            Engine::Sync => {
                let rec = Recorder { inner: Cursor::new(basis), max_req: 0, zero_reads: 0 };
                CopiaSync::new().patch(rec, delta, &mut sink).is_ok()
            }
            Engine::Async => block_on(AsyncCopiaSync::new().patch(ARecorder { inner: Cursor::new(basis), zero_reads: 0 }, delta, &mut sink)).is_ok(),
        };
        (ok, sink.out)
    }))
}

fn judge_sink(engine: Engine, basis: &[u8], delta: &Delta, short: usize) -> Option<(&'static str, String)> {
    match patch_once(engine, basis, delta, short) {
        Err(p) if p.starts_with("SPIN") => Some(("hang", format!("{engine:?} patch spins at end of basis: {p}"))),
        Err(p) => Some(("panic", format!("{engine:?} patch panicked: {p}"))),
        Ok((true, out)) => {
            if StrongHash::compute(&out) != delta.checksum {
                Some(("ok_on_wrong_bytes", format!("{engine:?} patch returned Ok but BLAKE3(output) != delta.checksum ({} bytes reached the sink{}, source_size {})", out.len(), if short > 0 { format!(" accepting <= {short} bytes per write") } else { String::new() }, delta.source_size)))
            } else {
                None
            }
        }
        Ok((false, _)) => None,
    }
}

fn judge(engine: Engine, basis: &[u8], delta: &Delta) -> Option<(&'static str, String)> {
    judge_sink(engine, basis, delta, 0)
}

#[derive(Clone)]
struct Base {
    desc: Value,
    basis: Vec<u8>,
    delta: Delta,
    b: usize,
    small: bool,
}

fn small_strings() -> Vec<Vec<u8>> {
    let mut out = vec![vec![]];
    for len in 1..=4usize {
        for i in 0..(1usize << len) {
            out.push((0..len).map(|k| ((i >> k) & 1) as u8).collect());
        }
    }
    out
}

fn make_delta(basis: &[u8], source: &[u8], bs: usize) -> Delta {
    let sig = Signature::generate(&mut &basis[..], bs).unwrap_or_else(|e| machinery_error(format!("signature: {e}")));
    CopiaSync::new().delta(source, &sig).unwrap_or_else(|e| machinery_error(format!("delta: {e}")))
}

fn chunk_bases(seed: u64) -> Vec<Base> {
    let b = 512usize;
    let cases = [
        ("R1,R2,t", json!({"op":"identity"})),
        ("R1,W,R2", json!({"op":"insert","k":"7","o":"B+1"})),
        ("F,Z,H", json!({"op":"reverse"})),
        ("R1,R2", json!({"op":"prefix","j":1})),
        ("H,R1,t", json!({"op":"replace","k":"B-1","o":"1"})),
        ("R2", json!({"op":"dupfirst"})),
    ];
    cases
        .iter()
        .map(|(spec, e)| {
            let basis = build_basis(spec, b, seed);
            let source = apply_edit(&basis, spec, e, b, seed);
            let delta = make_delta(&basis, &source, b);
            Base { desc: json!({"level":"chunk","B":b,"basis":spec,"edit":e}), basis, delta, b, small: false }
        })
        .collect()
}

fn big_literal_base(seed: u64) -> Base {
    // one literal run of 3 MiB: larger than what an async file accepts per write call
    let basis = junk(seed, 91, 1000);
    let source = junk(seed, 92, 3 << 20);
    let delta = make_delta(&basis, &source, 512);
    Base { desc: json!({"level":"big_literal"}), basis, delta, b: 512, small: false }
}

fn base_from_desc(d: &Value, seed: u64) -> Base {
    if d["level"] == "big_literal" {
        return big_literal_base(seed);
    }
    if d["level"] == "small" {
        let basis = unhex(d["basis"].as_str().unwrap_or(""));
        let source = unhex(d["source"].as_str().unwrap_or(""));
        let bs = d["bs"].as_u64().unwrap_or(1) as usize;
        let delta = make_delta(&basis, &source, bs);
        Base { desc: d.clone(), basis, delta, b: bs, small: true }
    } else {
        let b = d["B"].as_u64().unwrap_or(512) as usize;
        let spec = d["basis"].as_str().unwrap_or("");
        let basis = build_basis(spec, b, seed);
        let source = apply_edit(&basis, spec, &d["edit"], b, seed);
        let delta = make_delta(&basis, &source, b);
        Base { desc: d.clone(), basis, delta, b, small: false }
    }
}

fn run_muts(base: &Base, muts: &[&Mut], others: &[Vec<u8>]) -> Option<(Vec<u8>, Delta)> {
    let mut basis = base.basis.clone();
    let mut delta = base.delta.clone();
    for m in muts {
        if !apply(m, &mut basis, &mut delta, others, base.b) {
            return None;
        }
    }
    Some((basis, delta))
}

fn is_huge(d: &Delta) -> bool {
    d.ops.iter().any(|o| matches!(o, DeltaOp::Copy { len, .. } if *len > (1 << 28)))
}

/// Child mode: apply RLIMIT_AS, run one mutated patch, report through the exit status.
pub fn child_main(arg: &str) -> ! {
    let v: Value = serde_json::from_str(arg).unwrap_or(Value::Null);
    let seed = v["seed"].as_u64().unwrap_or(1);
    let base = base_from_desc(&v["base"], seed);
    let muts: Vec<Mut> = serde_json::from_value(v["muts"].clone()).unwrap_or_default();
    let others = small_strings();
    let refs: Vec<&Mut> = muts.iter().collect();
    let Some((basis, delta)) = run_muts(&base, &refs, &others) else { std::process::exit(3) };
    let lim = libc::rlimit { rlim_cur: 1 << 30, rlim_max: 1 << 30 };
    unsafe {
        libc::setrlimit(libc::RLIMIT_AS, &lim);
    }
    let engine = if v["engine"] == "Async" { Engine::Async } else { Engine::Sync };
    match judge(engine, &basis, &delta) {
        None => std::process::exit(0),
        Some((k, m)) => {
            println!("{k}: {m}");
            std::process::exit(10)
        }
    }
}

fn spawn_child(base: &Base, muts: &[&Mut], engine: Engine, seed: u64) -> Option<Violation> {
    let arg = json!({"base": base.desc, "muts": muts, "engine": format!("{engine:?}"), "seed": seed}).to_string();
    let exe = std::env::current_exe().unwrap_or_else(|e| machinery_error(format!("current_exe: {e}")));
    let out = std::process::Command::new(exe).args(["C05", "--child", &arg]).env("MALLOC_ARENA_MAX", "1").output().unwrap_or_else(|e| machinery_error(format!("spawn child: {e}")));
    use std::os::unix::process::ExitStatusExt;
    let detail = json!({"base": base.desc, "muts": muts, "engine": format!("{engine:?}"), "child": true});
    if let Some(sig) = out.status.signal() {
        return Some(
            Violation::new("crash_under_memory_limit", format!("{engine:?} patch killed by signal {sig} under RLIMIT_AS=1GiB (mutations {muts:?})"), detail)
                .with("class", json!("huge_copy_len")),
        );
    }
    match out.status.code() {
        Some(0) => None,
        Some(10) => Some(Violation::new("ok_on_wrong_bytes", String::from_utf8_lossy(&out.stdout).trim().to_string(), detail)),
        c => machinery_error(format!("C05 child exited with {c:?}: {}", String::from_utf8_lossy(&out.stderr))),
    }
}

// ───────────── CLI ─────────────

fn cli_patch(basis: &[u8], delta: &Delta, sc: &Scratch, tag: usize) -> (Option<i32>, Option<i32>, String, Option<Vec<u8>>) {
    let bp = sc.path(&format!("b{tag}"));
    let dp = sc.path(&format!("d{tag}"));
    let op = sc.path(&format!("o{tag}"));
    let _ = std::fs::write(&bp, basis);
    let _ = std::fs::write(&dp, bincode::serialize(delta).unwrap_or_default());
    // the output path already holds an older, LONGER file (a re-run over a previous result): what is judged is
    // the file on disk afterwards, so a stale tail counts as wrong bytes
    let stale = (basis.len() as u64 + delta.source_size.min(1 << 20) + 8192) as usize;
    let _ = std::fs::write(&op, vec![0xEEu8; stale]);
    let args: Vec<std::ffi::OsString> = vec!["patch".into(), bp.into(), dp.into(), "-o".into(), op.clone().into()];
    let (code, sig, timed_out, err) = run_limited(&args, 20);
    if timed_out {
        return (None, Some(-1), err, None);
    }
    (code, sig, err, std::fs::read(&op).ok())
}

fn cli_part(bases: &[Base], evals: &AtomicU64) -> Vec<Violation> {
    let others: Vec<Vec<u8>> = Vec::new();
    // control: the unmutated case must succeed under the limit, else the limit itself is the problem
    {
        let sc = Scratch::new("c05ctl");
        let (code, sig, err, out) = cli_patch(&bases[0].basis, &bases[0].delta, &sc, 0);
        if code == Some(0) && sig.is_none() && out.as_ref().map(|o| StrongHash::compute(o)) != Some(bases[0].delta.checksum) {
            // the limit is not the problem: the command succeeded and the file on disk is wrong
            return vec![Violation::new("ok_on_wrong_bytes", format!("`copia patch` of the UNMUTATED pair exits 0 but the output file ({} bytes; the path held a longer file before) does not hash to the delta's checksum", out.map_or(0, |o| o.len())), json!({"cli": true, "mutations": [], "control": true}))];
        }
        if code != Some(0) || sig.is_some() {
            machinery_error(format!("control `copia patch` under RLIMIT_AS failed: code {code:?} sig {sig:?} {err}"));
        }
    }
    bases
        .par_iter()
        .flat_map_iter(|base| {
            let sc = Scratch::new("c05cli");
            let m = menu(&base.basis, &base.delta, 0, base.b, false);
            let mut out = Vec::new();
            let mut jobs: Vec<Vec<&Mut>> = vec![vec![]];
            jobs.extend(m.iter().map(|x| vec![x]));
            // the one pair class that passes validation with a huge length
            let bsmax = Mut::BasisSize("max".into());
            for x in &m {
                if matches!(x, Mut::CopyLen(_, k) if k == "max") {
                    jobs.push(vec![x, &bsmax]);
                }
            }
            for (ti, muts) in jobs.iter().enumerate() {
                let Some((basis, delta)) = run_muts(base, muts, &others) else { continue };
                evals.fetch_add(1, Ordering::Relaxed);
                let (code, sig, err, outb) = cli_patch(&basis, &delta, &sc, ti);
                let detail = json!({"base": base.desc, "muts": muts, "cli": true});
                let blk = matches!(muts.first(), Some(Mut::BlockSize(_)));
                if sig == Some(-1) {
                    out.push(Violation::new("cli_hang", format!("`copia patch` did not finish within 20 s (mutations {muts:?})"), detail));
                    continue;
                }
                if let Some(s) = sig {
                    let class = if blk { "block_size_assert" } else if is_huge(&delta) { "huge_copy_len" } else { "other" };
                    out.push(Violation::new("cli_crash", format!("`copia patch` killed by signal {s} (mutations {muts:?}): {}", err.lines().last().unwrap_or("")), detail).with("class", json!(class)));
                    continue;
                }
                match code {
                    Some(0) => {
                        if outb.map(|o| StrongHash::compute(&o)) != Some(delta.checksum) {
                            out.push(Violation::new("ok_on_wrong_bytes", format!("`copia patch` exit 0 but output does not hash to the delta's checksum (mutations {muts:?})"), detail));
                        }
                    }
                    Some(1) => {
                        if err.trim().is_empty() {
                            out.push(Violation::new("cli_silent_error", format!("`copia patch` exit 1 without a message (mutations {muts:?})"), detail));
                        }
                    }
                    c => out.push(Violation::new("cli_crash", format!("`copia patch` exit status {c:?} (mutations {muts:?})"), detail).with("class", json!("other"))),
                }
            }
            out
        })
        .collect()
}

pub fn run(ctx: &Ctx) -> ! {
    let seed = ctx.seed;
    let others = small_strings();
    if let Some(rp) = &ctx.replay {
        let v: Value = serde_json::from_slice(&std::fs::read(rp).unwrap_or_default()).unwrap_or(Value::Null);
        let d = &v["detail"];
        let base = base_from_desc(&d["base"], v["seed"].as_u64().unwrap_or(seed));
        let muts: Vec<Mut> = serde_json::from_value(d["muts"].clone()).unwrap_or_default();
        let refs: Vec<&Mut> = muts.iter().collect();
        let mut vs = Vec::new();
        if d.get("cli").is_some() {
            let evals = AtomicU64::new(0);
            let all = cli_part(&[base.clone()], &evals);
            vs.extend(all.into_iter().filter(|x| x.detail["muts"] == d["muts"]));
        } else if d.get("child").is_some() {
            let e = if d["engine"] == "Async" { Engine::Async } else { Engine::Sync };
            vs.extend(spawn_child(&base, &refs, e, seed));
        } else if let Some((basis, delta)) = run_muts(&base, &refs, &others) {
            let e = if d["engine"] == "Async" { Engine::Async } else { Engine::Sync };
            if let Some((k, m)) = judge_sink(e, &basis, &delta, d["short"].as_u64().unwrap_or(0) as usize) {
                vs.push(Violation::new(k, m, d.clone()));
            }
        }
        let mut rep = Report::new("exploration");
        rep.set("evaluations", 2u64).set("distinct_nontrivial", 2u64).set("rule", "replay").set("samples", json!([d]));
        finish(ctx, rep, vs);
    }
    let thorough = ctx.tier.is_thorough();
    let evals = AtomicU64::new(0);
    let past_validate = AtomicU64::new(0);
    let ok_count = AtomicU64::new(0);
    // base cases
    let mut bases: Vec<Base> = Vec::new();
    for bs in [1usize, 2] {
        for basis in &others {
            for source in &others {
                let delta = make_delta(basis, source, bs);
                bases.push(Base { desc: json!({"level":"small","basis":hex(basis),"source":hex(source),"bs":bs}), basis: basis.clone(), delta, b: bs, small: true });
            }
        }
    }
    let cb = chunk_bases(seed);
    let n_small = bases.len();
    bases.extend(cb.iter().cloned());
    let mut violations: Vec<Violation> = bases
        .par_iter()
        .enumerate()
        .flat_map_iter(|(bi, base)| {
            let m = menu(&base.basis, &base.delta, if base.small { others.len() } else { 0 }, base.b, base.small);
            let mut out: Vec<Violation> = Vec::new();
            let do_pairs = thorough || !base.small || (base.basis.len() <= 2 && bi % 3 == 0);
            let mut out2: Vec<Violation> = Vec::new();
            // short-writing sinks: the unmutated pair and every single mutation
            for short in [1usize, 5] {
                let mut jobs: Vec<Vec<&Mut>> = vec![vec![]];
                jobs.extend(m.iter().map(|x| vec![x]));
                for muts in jobs {
                    let Some((basis, delta)) = run_muts(base, &muts, &others) else { continue };
                    if is_huge(&delta) && delta.validate().is_ok() {
                        continue;
                    }
                    for e in [Engine::Sync, Engine::Async] {
                        evals.fetch_add(1, Ordering::Relaxed);
                        let r = judge_sink(e, &basis, &delta, short);
                        // the unmutated pair must also succeed
                        let r = if r.is_none() && muts.is_empty() && !matches!(patch_once(e, &basis, &delta, short), Ok((true, _))) { Some(("valid_patch_fails", format!("{e:?} patch of the unmutated pair fails with a sink accepting <= {short} bytes per write"))) } else { r };
                        if let Some((k, msg)) = r {
                            if out2.len() < 3 {
                                out2.push(Violation::new(k, format!("{msg}; mutations {muts:?}"), json!({"base": base.desc, "muts": muts, "engine": format!("{e:?}"), "short": short})));
                            }
                        }
                    }
                }
            }
            let mut eval = |muts: &[&Mut]| {
                let Some((basis, delta)) = run_muts(base, muts, &others) else { return };
                if is_huge(&delta) && delta.validate().is_ok() {
                    return; // executed in a child under a memory limit (below)
                }
                if delta.validate().is_ok() {
                    past_validate.fetch_add(1, Ordering::Relaxed);
                }
                for e in [Engine::Sync, Engine::Async] {
                    evals.fetch_add(1, Ordering::Relaxed);
                    match judge(e, &basis, &delta) {
                        Some((k, msg)) => {
                            if out.len() < 3 {
                                out.push(Violation::new(k, format!("{msg}; mutations {muts:?}"), json!({"base": base.desc, "muts": muts, "engine": format!("{e:?}")})));
                            }
                        }
                        None => {}
                    }
                }
                if let Ok((true, _)) = patch_once(Engine::Sync, &basis, &delta, 0) {
                    ok_count.fetch_add(1, Ordering::Relaxed);
                }
            };
            for x in &m {
                eval(&[x]);
            }
            if do_pairs {
                for i in 0..m.len() {
                    for j in i + 1..m.len() {
                        eval(&[&m[i], &m[j]]);
                    }
                }
            }
            // thorough: all unordered TRIPLES of mutations
            if thorough {
                for i in 0..m.len() {
                    for j in i + 1..m.len() {
                        for k in j + 1..m.len() {
                            eval(&[&m[i], &m[j], &m[k]]);
                        }
                    }
                }
            }
            out.extend(out2);
            out
        })
        .collect();
    // huge-length class, observed in a child under RLIMIT_AS = 1 GiB
    let mut huge_jobs: Vec<(&Base, Vec<Mut>)> = Vec::new();
    for base in bases.iter().skip(n_small).chain(bases.iter().take(n_small).filter(|b| b.delta.ops.iter().any(DeltaOp::is_copy)).step_by(if thorough { 20 } else { 97 })) {
        for (i, op) in base.delta.ops.iter().enumerate() {
            if op.is_copy() {
                huge_jobs.push((base, vec![Mut::CopyLen(i, "max".into()), Mut::BasisSize("max".into())]));
                huge_jobs.push((base, vec![Mut::CopyOff(i, "0".into()), Mut::CopyLen(i, "max".into()), Mut::BasisSize("max".into())]));
            }
        }
    }
    let hv: Vec<Violation> = huge_jobs
        .par_iter()
        .flat_map_iter(|(base, muts)| {
            let refs: Vec<&Mut> = muts.iter().collect();
            let mut o = Vec::new();
            for e in [Engine::Sync, Engine::Async] {
                evals.fetch_add(1, Ordering::Relaxed);
                o.extend(spawn_child(base, &refs, e, seed));
            }
            o
        })
        .collect();
    violations.extend(hv);
    let cli_before = evals.load(Ordering::Relaxed);
    let mut cli_bases = cb.clone();
    cli_bases.push(big_literal_base(seed));
    violations.extend(cli_part(&cli_bases, &evals));
    let cli_runs = evals.load(Ordering::Relaxed) - cli_before;
    // keep the list readable: one violation per (kind, class, engine/cli)
    let mut seen: std::collections::HashMap<String, usize> = Default::default();
    violations.retain(|v| {
        let k = format!("{}|{}|{}", v.sig, v.detail["engine"], v.detail.get("cli").is_some());
        let n = seen.entry(k).or_insert(0);
        *n += 1;
        *n <= 4
    });
    let mut rep = Report::new("exploration");
    rep.set("evaluations", evals.load(Ordering::Relaxed))
        .set("distinct_nontrivial", past_validate.load(Ordering::Relaxed))
        .set("rule", "base cases: every (basis, source) over {0,1}^<=4 at block sizes 1,2 (1922) + 6 chunk-level cases at B=512; all single mutations of (basis, delta) from the menu (other basis, truncation, extension, bit flips, copy offset/len edits, op drop/dup/swap/reverse, literal edits, source_size/basis_size/block_size/checksum edits) and all unordered pairs (quick: pairs on a sub-set of small bases + all chunk bases; thorough: also all unordered triples); both engines; non-trivial = the mutated delta still passes Delta::validate, so patch really executes it")
        .set("patch_returned_ok", ok_count.load(Ordering::Relaxed))
        .set("child_runs_under_rlimit", huge_jobs.len() as u64 * 2)
        .set("cli_runs", cli_runs)
        .set("samples", json!([
            {"base":{"level":"small","basis":"0100","source":"000100","bs":2},"muts":[{"CopyOff":[1,"+1"]},{"SrcSize":"-1"}],"engine":"Async"},
            {"base":{"level":"chunk","B":512,"basis":"R1,W,R2","edit":{"op":"insert","k":"7","o":"B+1"}},"muts":[{"BasisFlip":1371}],"cli":true}
        ]))
        .set("exhaustive", true);
    rep.assume("verification enabled (SyncConfig::default); combinations of three or more mutations not covered; 'crash' for huge declared lengths is observed under RLIMIT_AS = 1 GiB in a child process");
    finish(ctx, rep, violations);
}
