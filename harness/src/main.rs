//! vh — verification harness for paiml/copia (bounded exhaustive exploration).
#![allow(dead_code, unused_imports, clippy::all)]

// The CLI's modules, compiled in unchanged. Declared at the crate root so that
// their `super::…` imports resolve exactly as they do under the real main.rs.
#[path = "/repo/src/bin/copia/archive.rs"]
mod archive;
#[path = "/repo/src/bin/copia/bidir.rs"]
mod bidir;
#[path = "/repo/src/bin/copia/meta.rs"]
mod meta;
#[path = "/repo/src/bin/copia/plan.rs"]
mod plan;
#[path = "/repo/src/bin/copia/reconcile.rs"]
mod reconcile;
#[path = "/repo/src/bin/copia/serve.rs"]
mod serve;
#[path = "/repo/src/bin/copia/transfer.rs"]
mod transfer;
#[path = "/repo/src/bin/copia/wire.rs"]
mod wire;

mod common;
mod c17;
mod deltacases;
mod c01;
mod c18;
mod c19;
mod c05;
mod c20;
mod e2;
mod e3;
mod e4;
mod hub;
mod hubio;
mod c13;
mod e5;
mod e6;
mod c15;

use common::*;

#[global_allocator]
static ALLOC: CountingAlloc = CountingAlloc;

fn main() {
    // every panic of the code under test is caught and reported as a violation with its message;
    // the default hook would print a line (or a backtrace) per panic — millions in an exhaustive sweep
    std::panic::set_hook(Box::new(|_| {}));
    let args: Vec<String> = std::env::args().collect();
    if args.len() < 2 {
        eprintln!("usage: vh <ID> [--tier quick|thorough] [--replay FILE]");
        std::process::exit(2);
    }
    let id = args[1].clone();
    if args.get(2).map(String::as_str) != Some("--child") {
        sweep_scratch(false);
    }
    if id == "audit" {
        match e3::audit() {
            Ok(r) => {
                println!("shim-vs-strace audit ok: {r}");
                std::process::exit(0);
            }
            Err(e) if e.starts_with("SKIP") => {
                println!("shim-vs-strace audit not run: {e}");
                std::process::exit(0);
            }
            Err(e) => machinery_error(format!("shim-vs-strace audit failed: {e}")),
        }
    }
    if args.get(2).map(String::as_str) == Some("--child") {
        let a = args.get(3).cloned().unwrap_or_default();
        match id.as_str() {
            "C05" => c05::child_main(&a),
            "E2" => e2::worker_main(),
            "C12" => hubio::child_servemem(args.get(4).map(String::as_str).unwrap_or(""), args.get(5).map(String::as_str).unwrap_or("")),
            "E3" => e3::child_runwait(args.get(4).map(String::as_str).unwrap_or("")),
            _ => machinery_error("no child mode for this id"),
        }
    }
    let mut tier = match std::env::var("VERIF_TIER").as_deref() {
        Ok("thorough") => Tier::Thorough,
        _ => Tier::Quick,
    };
    let mut replay = None;
    let mut i = 2;
    while i < args.len() {
        match args[i].as_str() {
            "--tier" => {
                i += 1;
                tier = if args.get(i).map(String::as_str) == Some("thorough") { Tier::Thorough } else { Tier::Quick };
            }
            "--replay" => {
                i += 1;
                replay = args.get(i).map(std::path::PathBuf::from);
            }
            _ => {}
        }
        i += 1;
    }
    let seed = std::env::var("VERIF_SEED").ok().and_then(|s| s.parse::<u64>().ok()).unwrap_or(1);
    let ctx = Ctx { id: id.clone(), tier, seed, start: std::time::Instant::now(), replay };
    match id.as_str() {
        "C17" => c17::run(&ctx),
        "C01" => c01::run_c01(&ctx),
        "C16" => c01::run_c16(&ctx),
        "C18" => c18::run(&ctx),
        "C19" => c19::run(&ctx),
        "C05" => c05::run(&ctx),
        "C20" => c20::run(&ctx),
        "C02" | "C06" | "C07" => e2::run(&ctx, &id),
        "C15" => c15::run(&ctx),
        "C08" => e3::run_c08(&ctx),
        "C09" => e3::run_c09(&ctx),
        "C03" | "C10" => hub::run(&ctx, &id),
        "C11" => hubio::run_c11(&ctx),
        "C12" => hubio::run_c12(&ctx),
        "C13" => c13::run(&ctx),
        "C04" => e5::run_c04(&ctx),
        "C14" => e5::run_c14(&ctx),
        _ => machinery_error(format!("unknown property id {id}")),
    }
}
