#!/usr/bin/env bash
# tools/confirm_seed.sh <seed-dir>  — confirm a seeded change in a scratch worktree of /repo:
# applies, builds (lib + cli), baseline suite 254/254, bin unit tests, and (when the demo follows a
# known convention) the demo fails with the change and passes without. Writes <seed-dir>/confirm.json.
seed=$(readlink -f "$1"); name=$(basename "$seed")
wt=/tmp/cs-$name; export CARGO_TARGET_DIR=/tmp/cs-target-$((RANDOM % 2)); export CARGO_NET_OFFLINE=true
exec 9>"$CARGO_TARGET_DIR.lock"; flock 9
git -C /repo worktree remove --force "$wt" 2>/dev/null; git -C /repo worktree add -q --detach "$wt" ${REPO_REV:-HEAD} || exit 2
cd "$wt" || exit 2
res() { python3 - "$seed/confirm.json" "$@" <<'PY'
import json,sys
p=sys.argv[1]; kv=sys.argv[2:]
try: j=json.load(open(p))
except Exception: j={}
for i in range(0,len(kv),2):
    v=kv[i+1]
    j[kv[i]]= True if v=="true" else False if v=="false" else v
json.dump(j,open(p,'w'),indent=1)
PY
}
rm -f "$seed/confirm.json"; res seed "$name" repo_head "$(git -C /repo rev-parse --short ${REPO_REV:-HEAD})"
run_demo() { # $1 = label (with|without)
  local rc=99 kind=none
  export COPIA="$CARGO_TARGET_DIR/debug/copia" COPIA_BIN="$CARGO_TARGET_DIR/debug/copia"
  # demos that hard-code the sub-agent's worktree path: point that path at this worktree for the run
  for hp in $(grep -ho '/tmp/wt[0-9]*-C[0-9]*' "$seed"/demo* 2>/dev/null | sort -u); do [ -e "$hp" ] || ln -s "$wt" "$hp"; done
  local list; list=$(ls "$seed"/demo*.sh 2>/dev/null; ls "$seed"/demo*.py "$seed"/demo*.rs 2>/dev/null)
  for d in $list; do
    case "$d" in
      *.sh) kind=sh; mkdir -p _seed; cp "$seed"/demo* "$seed"/*.c "$seed"/ssh-standin _seed/ 2>/dev/null; for cf in _seed/*.c; do [ -f "$cf" ] && gcc -shared -fPIC -O1 -o "${cf%.c}.so" "$cf" -ldl 2>/dev/null; done; timeout 600 bash "_seed/$(basename "$d")" >"/tmp/cs-$name.$1.log" 2>&1; rc=$?; break;;
      *.py) kind=py; mkdir -p _seed; cp "$seed"/demo* "$seed"/*.py "$seed"/*.c _seed/ 2>/dev/null; COPIA_BIN="$CARGO_TARGET_DIR/debug/copia" timeout 600 python3 "_seed/$(basename "$d")" >"/tmp/cs-$name.$1.log" 2>&1; rc=$?; break;;
      *.rs) kind=rs; if grep -q "rustc" "$d" && grep -q "path" "$d"; then mkdir -p _seed target; cp "$d" _seed/; timeout 600 bash -c "rustc --edition 2021 --test -A warnings _seed/$(basename "$d") -o target/demo_bin && ./target/demo_bin" >"/tmp/cs-$name.$1.log" 2>&1; rc=$?; else cp "$d" tests/zz_seed_demo.rs; timeout 900 cargo test --offline --features cli --test zz_seed_demo >"/tmp/cs-$name.$1.log" 2>&1; rc=$?; rm -f tests/zz_seed_demo.rs; fi; break;;
    esac
  done
  for hp in $(grep -ho '/tmp/wt[0-9]*-C[0-9]*' "$seed"/demo* 2>/dev/null | sort -u); do [ -L "$hp" ] && rm -f "$hp"; done
  echo "$kind $rc"
}
# target/debug/copia symlink so demos that hard-code target/debug/copia work
rm -rf target; ln -s "$CARGO_TARGET_DIR" target
if git apply "$seed/patch.diff" 2>/dev/null; then res applies true; else res applies false; cd /; git -C /repo worktree remove --force "$wt"; exit 0; fi
if cargo build --offline >/dev/null 2>&1 && cargo build --offline --features cli >/dev/null 2>&1; then res builds true; else res builds false; fi
rm -f "$CARGO_TARGET_DIR/debug/copia.keep"
if /verif/tools/baseline.sh "$wt" >/tmp/cs-$name.base.log 2>&1; then res baseline_254 true; else res baseline_254 false; fi
if cargo test --offline --features cli --bin copia >/tmp/cs-$name.bin.log 2>&1; then res bin_unit_tests true; else res bin_unit_tests false; fi
cargo build --offline --features cli >/dev/null 2>&1
set -- $(run_demo with); res demo_kind "$1" demo_rc_with_change "$2"
git checkout -- . ; git clean -fdq -e target
cargo build --offline --features cli >/dev/null 2>&1
set -- $(run_demo without); res demo_rc_without_change "$2"
cd /; git -C /repo worktree remove --force "$wt"
cat "$seed/confirm.json"
