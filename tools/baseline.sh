#!/usr/bin/env bash
# Runs the repository's baseline suite (guard OFF, no features) in DIR (default /repo)
# and compares the set of passing tests with /root/.vp/BASELINE.json stable_pass.
DIR=${1:-/repo}
cd "$DIR" || exit 2
out=$(mktemp)
cargo nextest run --workspace --no-fail-fast --offline --test-threads 8 >"$out" 2>&1
python3 - "$out" <<'PY'
import json,re,sys
base=set(json.load(open('/root/.vp/BASELINE.json'))['stable_pass'])
passed=set()
for l in open(sys.argv[1], errors='replace'):
    m=re.match(r"\s*PASS\s+\[[^\]]*\]\s+(?:\(\s*\d+/\d+\)\s+)?(\S+)\s+(\S+)\s*$", l)
    if m: passed.add(m.group(1)+'::'+m.group(2))
missing=sorted(base-passed)
print(f"baseline: {len(base&passed)}/{len(base)} stable tests pass; {len(passed-base)} extra passing")
for t in missing: print("  NO LONGER PASSING:", t)
sys.exit(1 if missing else 0)
PY
rc=$?
rm -f "$out"
exit $rc
