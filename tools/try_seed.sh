#!/usr/bin/env bash
# tools/try_seed.sh <patch.diff> <ID> [<ID>...]  — apply to /repo, run quick checks, always revert.
patch=$(readlink -f "$1"); shift
cd /repo || exit 2
if [ -n "$(git status --porcelain --untracked-files=no)" ]; then echo "repo dirty"; exit 2; fi
git apply "$patch" || { echo "PATCH DOES NOT APPLY"; exit 3; }
trap 'git -C /repo checkout -- . ' EXIT INT TERM HUP
for id in "$@"; do
  out=$(cd /verif && ./check "$id" --tier ${TIER:-quick} 2>&1); rc=$?
  echo "== $id rc=$rc  $(echo "$out" | grep -c '^VIOLATION') violation line(s)"
  echo "$out" | grep -E '^\s+-> ' | head -3
  echo "$out" | grep -E 'MACHINERY' | head -3
done
