#!/usr/bin/env bash
# tools/sweep_seeds.sh [pattern] — re-run every seeded change against the FIRST check its meta.json lists; prints one line per seed.
# Patches /repo per seed (and reverts): run nothing else meanwhile.
cd /verif
for d in seeded/${1:-*}/; do
  n=$(basename $d)
  ids=$(python3 -c "
import json,sys
try: m=json.load(open('$d/meta.json'))
except Exception: sys.exit(0)
print(' '.join(m.get('caught_by_quick_checks',[])[:1]))")
  [ -z "$ids" ] && { echo "$n: (no check expected)"; continue; }
  out=$(timeout 1200 tools/try_seed.sh $d/patch.diff $ids 2>&1)
  echo "$n: $(echo "$out" | grep '^== ' | tr '\n' ' ')$(echo "$out" | grep -c MACHINERY | sed 's/^0$//; s/^[1-9].*/ MACHINERY-ERROR/')$(echo "$out" | grep 'DOES NOT APPLY')"
done
git -C /repo status --porcelain
