#!/usr/bin/env bash
# tools/test_replay.sh <patch.diff> <ID> — apply a breaking patch, run the quick check, then re-run the FIRST
# reported replay file through `./check <ID> --replay <file>` and require exit 1 again. Always reverts.
patch=$(readlink -f "$1"); id=$2
cd /repo || exit 2
[ -n "$(git status --porcelain --untracked-files=no)" ] && { echo "repo dirty"; exit 2; }
git apply "$patch" || { echo "PATCH DOES NOT APPLY"; exit 3; }
trap 'git -C /repo checkout -- . ' EXIT INT TERM HUP
cd /verif
out=$(timeout 900 ./check "$id" --tier quick 2>&1); rc=$?
f=$(echo "$out" | grep -m1 '^VIOLATION' | sed 's/.*replay=//')
if [ -z "$f" ]; then echo "$id: no violation to replay (rc=$rc)"; exit 0; fi
out2=$(timeout 900 ./check "$id" --replay "$f" 2>&1); rc2=$?
echo "$id: check rc=$rc; replay of $(basename $f) rc=$rc2 $(echo "$out2" | grep -c '^VIOLATION') violation line(s) $(echo "$out2" | grep -m1 MACHINERY | cut -c1-120)"
