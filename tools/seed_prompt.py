#!/usr/bin/env python3
import json, sys
pid = sys.argv[1]; wt = sys.argv[2] if len(sys.argv) > 2 else f"/tmp/wt-{pid}"
p = next(json.loads(l) for l in open('/verif/properties.jsonl') if json.loads(l)['id'] == pid)
print(f"""You are helping to evaluate a verification effort for the Rust project paiml/copia (a pure-Rust rsync-style delta engine plus a CLI for incremental mirror, 3-way bidirectional sync and a CAS-on-hash hub daemon). Your job is to play the role of a developer who introduces a subtle, realistic regression.

You have your own scratch git worktree of the repository at {wt} (detached HEAD). Work ONLY inside {wt}. Do not read or touch /repo or /verif or any other worktree under /tmp. The sandbox has no network; build with `--offline`. Use `CARGO_TARGET_DIR={wt}/target` for every cargo command so build output stays inside your worktree.

The property that must be BROKEN by your change (this is the only thing you are given about it):

  Title: {p['title']}
  Statement: {p['statement']}
  Scope (quantifier): {p['quantifier']['text']}

Task: produce TWO independent changes (two separate patches, each applying to a clean checkout on its own) to the source of paiml/copia (files under src/) such that, for each change:
  1. the project still compiles: `cargo build --offline` and `cargo build --offline --features cli` both succeed;
  2. the existing test suite still passes exactly as before: run `cargo test --workspace --no-fail-fast --offline` on the clean tree first and note which tests pass (254 pass; about 25 tests under tests/ fail in this sandbox with or without any change because they need the CLI binary or ssh — ignore those); with your change the same 254 tests must still pass. Also `cargo test --offline --features cli --bin copia` (the CLI crate's own unit tests) should still pass if at all possible;
  3. the property above is violated for some input / schedule / crash point / history;
  4. the violation needs something SPECIFIC to manifest — a particular interleaving of processes, a crash or fault at a particular point, a multi-step sequence of operations, an unusual input (boundary size, special character, particular byte values), or two cooperating sites that each look fine alone. It must NOT be something ordinary use or a trivial smoke test would expose at once. It should look like a plausible refactoring slip, optimisation or "improvement", not like sabotage (no special-casing of magic values, no dead obvious `return` of wrong data).
  5. you provide a demonstration — a standalone test file, small Rust program, or shell script — that FAILS with the change applied and PASSES on the unchanged tree. Actually run it both ways and record the output.

Prefer changes in the code that is meant to make the property hold (read the relevant sources first). If you can think of several candidate regressions, choose the ones you judge HARDEST for an automated checker to notice (deep in a history, dependent on an ordering or a crash point, or on an interaction between two features), as long as you can still demonstrate them. Make the two changes different in kind (different function / different mechanism).

Deliverables — write them into {wt}/_seed/ :
  - change1.diff and change2.diff : `git diff` output of each change against the clean tree (only files under src/; each must apply with `git apply` to a clean checkout on its own);
  - demo1.* and demo2.* : the demonstrations, with a comment at the top saying exactly how to run them (from the worktree root);
  - NOTES.md : for each change: what it breaks, what specific condition it needs to manifest, the exact commands you ran (build, test suite, demo with/without) and their outcomes.
Leave the worktree's tracked files CLEAN at the end (git checkout -- . ; the _seed directory is untracked and stays). Do not commit anything. Finish with a brief summary of the two changes.""")
