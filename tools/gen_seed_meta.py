#!/usr/bin/env python3
"""Writes /verif/seeded/<id>/meta.json from the table below (+ confirm.json when present)."""
import json, os
T = {
 "orig-D1": ("C17", "reverse of fix bdafaa9 (RollingChecksum::new in wrapping u32)", "windows >= 8192 bytes of high values", ["C17","C16"]),
 "orig-D2": ("C17", "reverse of fix 6397bec (roll reduces a wrapped subtraction)", "any slide of a window longer than ~256 bytes", ["C17"]),
 "orig-D3": ("C19", "reverse of fix 9426b25 (glob literal branch before '*')", "a text that itself contains '*'", ["C19","C15"]),
 "orig-D4": ("C05", "reverse of fix ec0a2dc (block size from file asserted)", "a .sig/.delta file with an illegal block size", ["C05","C20"]),
 "orig-D5": ("C05", "reverse of fix 0341139 (vec![0; len] before reading)", "copy len = u32::MAX with inflated basis_size, under a memory limit", ["C05"]),
 "orig-D6": ("C02", "reverse of fix 960bd48 (stale archive entries)", "3-run history: sync, delete both, sync, re-create, sync", ["C02","C06"]),
 "orig-D7": ("C02", "reverse of fix 3543541 (conflict-copy lands on a name in use)", "a conflict whose loser content recurs while the earlier conflict-copy was edited, or has a pending delete (3 edits between runs)", ["C02","C07","C06"]),
 "orig-D8": ("C08", "reverse of fix d620c5c (no fsync before rename)", "power loss after the rename", ["C08"]),
 "orig-D9": ("C03", "reverse of fix 57b7bc5 (shared staging name)", "two servers writing one path, one preemption", ["C03","C10","C13"]),
 "orig-D10": ("C10", "reverse of fix d6d074d (3-step Get)", "a commit between the stat/hash/open of a Get", ["C10","C03"]),
 "orig-D12": ("C09", "reverse of fix cb4532a (push publishes truncated file)", "sender killed between two pipe writes", ["C09"]),
 "orig-D13": ("C04", "reverse of fix ae726da (newline-delimited xargs)", "push with a name containing a newline (+ --delete)", ["C04"]),
 "orig-D14": ("C11", "reverse of fix 8eb4ea8 (path naming the served dir)", "Put with path \"\" or \".\"", ["C11"]),
 "C01-1": ("C01", "weak-only sequential fast path skips BLAKE3 confirmation", "a source block that collides on the weak checksum with the next basis block in sequence", ["C01"]),
 "C01-2": ("C01", "parallel signature path cut into 64 KiB spans", "non-power-of-two block size at library level on a basis > 64 KiB", ["C01"]),
 "C02-1": ("C02", "reconcile fast path skips paths whose replicas agree (no ConvergeIdentical)", "both sides make the same edit, sync, one side reverts, sync", ["C02","C06"]),
 "C02-2": ("C02", "BothChanged records side A's fingerprint instead of the winner's", "B wins a conflict, then A rewrites the losing content and deletes the conflict-copy", ["C02","C06"]),
 "C03-1": ("C03", "live-file hash taken before the commit lock", "a stale CAS racing another server's commit (hash before, lock after)", ["C03"]),
 "C03-2": ("C03", "staging name derived from the content hash", "two servers staging identical bytes for one path, overlapping", ["C03","C10"]),
 "C04-1": ("C04", "%T@ parsed as f64 then truncated", "remote mtime within ~120 ns below a whole second", ["C14","C19","C04"]),
 "C04-2": ("C04", "glob matcher walks bytes instead of chars", "'?' positioned over a non-ASCII character", ["C19","C15"]),
 "C05-1": ("C05", "write instead of write_all; unwritten bytes still hashed", "a literal > 2 MiB through `copia patch`, or any short-writing sink", ["C05","C01"]),
 "C05-2": ("C05", "checksum compared over the first strong_hash_len (8) bytes only", "a checksum that differs from the output's hash only in bytes 8..31", ["C05"]),
 "C06-1": ("C06", "size+mtime cache: unchanged (size, mtime) keeps the recorded hash", "same-length edit with preserved mtime on a file recorded >= 2 s ago", ["C06"]),
 "C06-2": ("C06", "'replicas already identical' fast path returns no actions", "both sides carry the same out-of-band edit, nothing else pending", ["C06","C02"]),
 "C07-1": ("C07", "Archive::load falls back to .bak when the main file is missing", "main archive missing with a stale .bak present", ["C07"]),
 "C07-2": ("C07", "pair hash from lexical instead of canonical paths", "a root reached through a symlink that is re-pointed between runs", ["C07"]),
 "C08-1": ("C08", "BufWriter never flushed before sync_all + rename", "kill between the rename and the trailing write", ["C08"]),
 "C08-2": ("C08", "propagated deletes executed after the archive save", "kill between the archive rename and the unlink", ["C08"]),
 "C09-1": ("C09", "remote touch no longer conditional on delivery", "push, same-size older file at the destination, kill mid-stream, re-run", ["C09"]),
 "C09-2": ("C09", "new destination files written in place (no staging)", "pull/local, a big file that is new at the destination, kill while it is written", ["C09"]),
 "C10-1": ("C10", "staging name from the declared hash", "same path + same declared hash; A verified, B truncates, A renames", ["C10","C03"]),
 "C10-2": ("C10", "hash verdict only checked in the Commit arm", "a Put with stale `expected` AND bytes that do not match its hash/length", ["C10"]),
 "C11-1": ("C11", "'./' stripped from the raw string after the component check", "a path like .//abs/path", ["C11"]),
 "C11-2": ("C11", "staging name built from file_name()", "paths \"\", \".\" — SUBSUMED: the unchanged tree already had this defect (D14), found by C11 and fixed in 8eb4ea8; patch no longer applies", []),
 "C12-1": ("C12", "content loop has no exit on read()==0", "stdin closed strictly inside a Put's content", ["C12"]),
 "C12-2": ("C12", "refused Put drains everything buffered, not just len bytes", "pipelined frames behind a refused Put with len > 0", ["C12"]),
 "C13-1": ("C13", "`clean = clean && push_one()` short-circuits after the first CAS loss", "stale listing on path P + a changed local file sorting after P", ["C13"]),
 "C13-2": ("C13", "List filters names by textual prefix '.copia'", "a top-level name beginning with '.copia' + a second run", ["C13"]),
 "C14-1": ("C14", "remote touch with nanoseconds + f64 parse of %T@", "push, source mtime within ~120 ns below a whole second", ["C14","C04"]),
 "C14-2": ("C14", "listing record split on every TAB", "a TAB in a remote file name", ["C14","C04","C19"]),
 "C15-1": ("C15", "'*' backtracking skips ahead to the next pattern character", "a pattern with '*?' where '*' must absorb >= 1 character", ["C15","C19"]),
 "C15-2": ("C15", "prune_stale_dirs removes destination-only directories recursively", "--delete + --exclude, a destination-only directory holding a stale and an excluded file", ["C15","C04"]),
 "C16-1": ("C16", "fold-reduce of the lazy sums in FastRollingChecksum::digest", "a match reached after hundreds..thousands of slides at large block sizes", ["C16","C17"]),
 "C16-2": ("C16", "weak table keeps only the last block of a weak-collision run", "two distinct basis blocks with equal weak checksum", ["C16"]),
 "C17-1": ("C17", "cached count_mod not maintained by push()", "a push followed by a roll with a non-zero outgoing byte", ["C17"]),
 "C17-2": ("C17", "fold-reduce in FastRollingChecksum::digest", "long slide runs on large windows", ["C17","C16"]),
 "C18-1": ("C18", "convergence test ignores the entry type", "File vs Symlink with the same digest, neither equal to the base", ["C18"]),
 "C18-2": ("C18", "tree merge steps in byte order instead of path-component order", "a directory X/ next to a sibling X<byte below '/'>…", ["C18"]),
 "C19-1": ("C19", "merge-pass build_plan in byte order", "conf/ next to conf.d/ with differing membership", ["C19"]),
 "C19-2": ("C19", "listing record split on every TAB", "a TAB in a remote name", ["C19","C14","C04"]),
 "C01-3": ("C01", "async signature() assumes one read() fills the buffer", "a reader that returns short, unaligned reads (pipe, chained reader)", ["C01"]),
 "C01-4": ("C01", "sync_files returns early on a copy-only delta of equal size", "destination = same-size permutation/repetition of the source's blocks", ["C01"]),
 "C05-3": ("C05", "patch returns Ok right after validate() when the delta has no ops", "an op-less delta whose checksum is not that of the empty output", ["C05"]),
 "C05-4": ("C05", "`copia patch` pre-sizes the output file to delta.source_size", "source_size edited upwards with ops and checksum intact", ["C05"]),
 "C16-3": ("C16", "scan loop bound tightened to '<' (last full window only compared with the basis tail)", "the source's final full window equals a basis block other than the last", ["C16"]),
 "C16-4": ("C16", "binary search lands inside a run of equal weak keys and only walks forward", "distinct basis blocks sharing a weak checksum", ["C16"]),
 "C17-3": ("C17", "fold-reduce with too few folds in FastRollingChecksum", "hundreds..thousands of slides on large windows", ["C17"]),
 "C17-4": ("C17", "RollingChecksum::push single conditional subtraction using the un-reduced a", "the push where a wraps past 65521 while b is within 254 of it", ["C17"]),
 "C18-3": ("C18", "delete arm compares digests only (drops the entry-type check)", "survivor's type flipped with unchanged digest while the peer deleted", ["C18"]),
 "C18-4": ("C18", "no base + two different present sides yields Noop", "both present, different, no base", ["C18"]),
 "C20-3": ("C20", "write_message uses one write_vectored and mis-handles a short first write", "a writer accepting fewer than 12 bytes on the first call", ["C20"]),
 "C20-4": ("C20", "CLI validates the block size of a .sig as u32 (low half only)", "a .sig whose block-size field is k*2^32 + a valid size", ["C20"]),
 "C20-1": ("C20", "Codec keeps rejected payload bytes in its read buffer", "a bad frame followed by a good frame on the same Codec", ["C20"]),
 "C20-2": ("C20", "async patch copy loop has no end-of-file exit", "a copy range beyond the real end of the basis", ["C05"]),
}
base = "/verif/seeded"
for sid, (prop, what, needs, caught) in T.items():
    d = os.path.join(base, sid)
    if not os.path.isdir(d): print("missing dir", sid); continue
    m = {"seed": sid, "breaks_property": prop, "change": what, "needs_to_manifest": needs,
         "caught_by_quick_checks": caught,
         "what_i_ran": [f"tools/try_seed.sh seeded/{sid}/patch.diff " + " ".join(caught) if caught else "n/a (subsumed)",
                        f"tools/confirm_seed.sh seeded/{sid}  (scratch worktree of /repo: apply, build lib+cli, baseline 254/254, bin unit tests, demo with/without)"]}
    c = os.path.join(d, "confirm.json")
    if os.path.exists(c):
        m["confirmation"] = json.load(open(c))
    json.dump(m, open(os.path.join(d, "meta.json"), "w"), indent=1)
for d in sorted(os.listdir(base)):
    if d not in T: print("no table entry for", d)
print("ok")
