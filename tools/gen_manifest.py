#!/usr/bin/env python3
"""Regenerates /verif/MANIFEST.json from the table below (kept in one place so it stays valid)."""
import json, sys
IDS = ["C%02d" % i for i in range(1, 21)]

# id -> (engine, category, technique, text, note, design_ref)
CHECKS = {
 "C03": ("E4-hub-scheduler", "model_checking",
   "stateless exploration of all interleavings (iterative preemption bounding, CHESS-style) of REAL `copia serve` processes parked by an LD_PRELOAD scheduler at every libc call on the hub tree; brute-force linearizability check of every complete execution against a sequential reference hub",
   "2 real server processes (3 at bound 1 in thorough) on one hub root, each driven by a scripted client (programs over Put / Put in 2 pieces / Delete / Get / List / stale Put / Put;Put / List;Put-with-listed-hash / Put g;Put f, on a colliding path f and a distinct path g), from an empty hub and from {f:c0}. Every schedule within preemption bound 2 (quick: 8 program pairs x 2 initial states; thorough: all 78 pairs x 2, bound 3 on focused pairs) is executed on fresh processes and a fresh tree. Oracle per execution: the invocation/response history (steps at which request frames were delivered and replies observed) plus the final hub tree must equal some one-at-a-time order, consistent with real time, of a reference hub with exact CAS semantics (commit iff current hash == expected; otherwise conflict-copy, live file untouched); deadlock, a missing reply or a non-zero server exit are violations.",
   "Scheduling points are libc calls (open/read/write/fsync/stat/rename/unlink/flock/readdir) under the hub root plus stdin reads; <= 3 servers, <= 2 requests per client, preemption bound <= 3. Known finding D11 (List is not an atomic snapshot) is matched only when the history becomes linearizable once each List is split into per-path reads.",
   "DESIGN.md §2.4, §3 C03"),
 "C10": ("E4-hub-scheduler", "model_checking",
   "same scheduler; the hub tree is snapshotted after EVERY scheduling step of every explored schedule; plus a sub-exploration with one SIGKILL of a parked server at any point, and malformed writes",
   "(a) the C03 program pairs within preemption bound 2, hub observed after every step: every non-staging path holds the initial content or the complete bytes of one single verified Put (conflict-copy names: the losing Put's bytes); (b) the same with one extra alternative at every point - kill server i now - at preemption bound 1; (c) Puts with a wrong hash, content shorter than len then EOF, excess bytes, len 0 with bytes following, against a concurrent reader: no listed path changes; (d) every Get reply parsed from the raw stream: the announced len equals the bytes that follow and they hash to the announced hash.",
   "As C03. Process-kill crash model (the hub's own fsyncs are not modelled here).",
   "DESIGN.md §3 C10"),
 "C09": ("E3-crash-enumeration", "fault_enumeration",
   "exhaustive kill-point enumeration (SIGKILL before the k-th file-system or pipe-write libc call, every k) of the real `copia sync -r` in all three directions; orphaned remote commands reaped by a subreaper; re-run to completion",
   "Scenarios = direction {local, pull, push over the ssh stand-in} x destination state {absent, different size, same size + different mtime, mixed} x flags {none, --delete with stale files, --exclude} (quick: 4 scenarios; thorough: all 36), files of 0 B, 1 B, 300 KiB and 700 000 B (several transfer chunks / pipe writes), --jobs 1 with one runtime worker so the log is deterministic. For EVERY k until a run completes unkilled: kill before call k, wait for all orphaned children (the remote `cat ... && mv` runs to completion on EOF), then every non-staging destination path must hold exactly its pre-run bytes or exactly the source's bytes, paths outside the plan are untouched (bytes, mtime), the source is unchanged; then the same command must complete with exit 0 and yield the uninterrupted run's destination (bytes + whole-second mtimes).",
   "ssh stand-in = bash -c with OpenSSH-style argument joining (remote shell assumed bash; no real network); process-kill crash model (no power loss) for the one-way engine; --jobs 1 only (completion orders are C04's).",
   "DESIGN.md §2.3, §3 C09"),
 "C08": ("E3-crash-enumeration", "fault_enumeration",
   "exhaustive kill-point enumeration (SIGKILL before the k-th mutating libc call, every k) of the real `copia bisync` under an LD_PRELOAD injector, plus every subset of unsynced files torn; recovery runs",
   "Scenarios (quick: propagate, both-changed conflict, first run without archive; thorough: + create, propagate either way, delete either way, delete-vs-modify, several nested paths at once, 300 KiB file), each prepared by a real prior sync. The uninterrupted run is logged twice (determinism) giving N mutating calls; for EVERY k in 1..N+1 the process is killed before call k; at each k every subset (capped) of files written since their last fsync is additionally torn (empty / half). Each crash state: every non-staging path holds a complete pre-run or delivered version; the archive is the old one, absent, or the new one and then everything it records is on both sides with that hash. Trace-order invariant on the log: every staged file is fsynced after its last write and before its rename; the archive rename follows all data renames. Then up to 3 recovery runs must reach the uninterrupted run's trees without losing a version.",
   "Crash model: metadata ops persist in issue order, data only up to the last fsync; single crash; tmpfs; the interposer sees libc-level calls (open/write/copy_file_range/fsync/rename/unlink/mkdir/...).",
   "DESIGN.md §2.3, §3 C08"),
 "C02": ("E2-bisync-statespace", "model_checking",
   "explicit-state BFS over bisync histories; every bisync transition executes the real run_bisync on a materialised pre-state; transitions re-validated with the built CLI binary",
   "All histories over {write(side,path,content), delete(side,path), bisync} from every initial tree pair over the base path universe, 3 contents ordered by BLAKE3 (one empty), paths = base universe plus every path present on either side (so conflict-copies are edited and collided with), up to E runs and M edits between runs (quick: {f} E=3 M=2 and {f,d/g} E=2 M=1; thorough: {f} E=4 M=2 and {f,d/g} E=3 M=2). Oracle on every bisync transition: a pre-run version may vanish only if it is the last common version and the other side changed/deleted the path; otherwise it must exist on both sides at the path or a conflict-copy of it; no foreign bytes. The harness tracks the last common tree itself (never reads it from the archive).",
   "Canonical state drops mtimes/epoch/host (mtime and order independence are checked by C06); symlinks, directory-vs-file clashes and more than E runs outside the bound. One known finding (D7, conflict-copy name collision) is matched by a cause predicate; any other loss exits 1.",
   "DESIGN.md §2.2, §3 C02"),
 "C06": ("E2-bisync-statespace", "model_checking",
   "same state graph as C02; per transition: convergence, exact archive, immediate second run, and three lock-step universes (swapped argument order, adversarial mtimes)",
   "On every completed bisync transition of the C02 state graph: (a) both trees equal; (b) the archive parses, has format 1 and the pair hash, and its entries equal exactly the tree; (c) an immediate second run plans 0 actions and changes no byte, no nanosecond mtime and no recorded entry; (d) re-running the same pre-state with the roots swapped (archive for the swapped pair) and with adversarial mtimes (newer on the losing side, epoch 0) gives identical trees and result; (e) every divergent edit ends with the greater-BLAKE3 version at the path and the other at <path>.conflict-<host>-<12hex> on both sides.",
   "Same bounds and abstraction as C02; (e) is not asserted where the conflict-copy name is itself contested (that corner is C02's).",
   "DESIGN.md §2.2, §3 C06"),
 "C07": ("E2-bisync-statespace+faults", "model_checking",
   "every reachable bisync state x every archive-fault kind (incl. every truncation point) executed on the real code",
   "For every state of the bisync graph (quick: {f} E=2 M=2; thorough: {f} E=3 M=2 and {f,d/g} E=2 M=1) and every fault in {absent, zero-length, every truncation point (3 points for deep states), random/`null`/`[]`/`\"x\"`/`{}` garbage, 9 wrong-shape JSON objects, format_version 0 and 2, a perfect archive of another pair and of the swapped pair with adversarial entries (every present file at its current hash), only .bak/.tmp left}: Archive::load must refuse it; the dry run lists no Delete; the real run prints the SAFE no-base banner, removes no path from either side, keeps every pre-run version on both sides (path or conflict-copy) and resolves differing files as conflicts.",
   "Same abstraction as C02. Known finding D7 (conflict-copy name collision) is reachable in no-base mode too and is matched by its cause predicate.",
   "DESIGN.md §3 C07"),
 "C20": ("E1-enumeration+child-procs", "exploration",
   "bounded-exhaustive enumeration of header/message/byte-string spaces into all decoders under a counting allocator; CLI file readers under RLIMIT_AS and a timeout",
   "Headers: 5 magics x 7 lengths x all 256 type bytes x all 256 version bytes x 3 flag values (6.9 M) through FrameHeader::decode and read_from: accepted iff COPA, version 1, type 1..7, length <= 2^24, and accepted headers re-encode identically. Messages: all 7 kinds over boundary menus (ids, block sizes, empty/multi-byte/70 000-char strings, Option both ways, signatures/deltas from the C01 byte-level space plus a > 64 KiB one, extreme field values) through Message encode/decode, Codec write/read (COPA, version byte, LE length == payload) and bincode files; > 16 MiB refused both ways. Totality: every byte string of length <= 2 (all values) and <= 5/6 over 8 values, every truncation and 7 values at every position of ~40 valid encodings, field-level corruptions (block size, counts, lengths up to 2^64-1), into every decoder under catch_unwind with the largest single allocation bounded by 16 MiB + 64 KiB. CLI: the field corruptions and truncations of real .sig/.delta files into `copia delta`/`copia patch` under RLIMIT_AS = 1 GiB and a 10 s timeout: exit 1 with a message, or 0 only for a file that decodes; never a signal or hang.",
   "Length/alphabet bounds as stated; allocation measured per decode call on the calling thread.",
   "DESIGN.md §3 C20"),
 "C05": ("E1-enumeration+child-procs+CLI", "exploration",
   "bounded-exhaustive enumeration of single and pairwise mutations of valid (basis, delta) pairs on both engines; child processes under RLIMIT_AS; real `copia patch`",
   "Base cases: every (basis, source) over {0,1}^<=4 at block sizes 1 and 2 plus six chunk-level cases at B=512. Mutation menu: other basis, every truncation, extension, every bit flip, copy offset/len edits (+-1, +-B, basis_size, MAX), op drop/dup/swap/reverse, literal flip/truncate/extend, source_size/basis_size/block_size/checksum edits. All singles and all unordered pairs (quick: pairs on a sub-set). Oracle: Ok => BLAKE3(output) == delta.checksum; panic, abort or signal is a violation; huge declared lengths run in a child under RLIMIT_AS = 1 GiB so an allocation abort is observed. CLI: every single mutation of the chunk cases through `copia patch` under the same limit: exit 0 => output hashes to the delta's checksum, else exit 1 with a message, never a signal.",
   "verify_checksum enabled (default); triples of mutations not covered; memory-exhaustion crash defined relative to a 1 GiB address-space limit.",
   "DESIGN.md §3 C05"),
 "C19": ("E1-enumeration+CLI", "exploration",
   "bounded-exhaustive enumeration of the pure planner functions against set-comprehension / DP references; real find(1) and CLI --dry-run bindings",
   "glob_match on every (pattern, text) pair of length <= 4 (quick) / <= 5 (thorough, 87 M pairs) over {a,b,*,?,.,/} vs a DP wildcard matcher; is_excluded on every pattern of length <= 3 (with trailing-slash variants) x every 1..3-component path over 18 names containing *, ?, .; build_plan on all 4096 (src, dst) metadata maps over 3 paths x 43 exclude lists x delete on/off; needs_transfer on boundary values; parse_remote_meta_output on rendered listings (tabs, newlines, dots, UTF-8; sizes to u64::MAX; fractional/integral timestamps) and on the output of the real find -printf over files created on tmpfs; `copia sync -r --dry-run` prints exactly the reference plan for the metadata states (sub-sampled in quick, all 8192 in thorough).",
   "Length/alphabet bounds as stated; negative timestamps and non-UTF-8 names outside the domain.",
   "DESIGN.md §3 C19"),
 "C18": ("E1-enumeration+Lean-eval+CLI", "exploration",
   "complete enumeration of the quotient (Fingerprint+absent)^3 and of all small path maps against a table written from the property text; repository's Lean model evaluated on 125 triples; bisync --dry-run on 80 single-path states",
   "All 343 (a, b, base) triples over absent + 3 digests x {File, Symlink} under 17 digest labellings (one-byte differences, extremes, permutations, seeded) against the documented table, mirror symmetry and no-delete-without-base; reconcile() over every (a, b, base) map triple on three 3-path universes (4-path in thorough) whose byte order and component order disagree, both trust settings; the repo's Lean `reconcile` is evaluated (#eval, not proved) on {none, some 0..3}^3 and must agree; `copia bisync --dry-run` must print the table's action for each single-path state with/without archive.",
   "Decision depends only on equality of fingerprints (checked over labellings, not proved for all digests).",
   "DESIGN.md §3 C18"),
 "C01": ("E1-enumeration+CLI", "exploration",
   "bounded-exhaustive enumeration of (basis, source, block size) on both engines against reference oracles; real CLI process chain per case",
   "Every (basis, source) pair over {0,1,2}^<=5 (quick) / <=6 (thorough) at library block sizes 1..4, and every chunk-string basis (<=2/<=3 chunks from zero, 0xFF, high-byte, two seeded, a constructed weak-checksum collision, short tail) x every edit script (identity, chunk permutations, insert/delete/replace of k bytes at every alignment, junk prefixes around the 5000-slide normalisation boundary) at 3 / all 8 legal block sizes, on the sync and async engines: patch Ok and output == source, delta fields, copy bounds, signatures == per-block reference, engine-independence. CLI: signature|delta|patch chain and single-file sync (dst = basis, dst absent) as real processes; the .sig/.delta files must deserialize to the library values.",
   "Bounded input space (see evidence bounds); release semantics; BLAKE3 collisions treated as impossible.",
   "DESIGN.md §3 C01"),
 "C16": ("E1-enumeration", "exploration",
   "bounded-exhaustive enumeration against a textbook greedy reference decided by byte comparison",
   "Same input space as C01. For every case and both engines: literal bytes <= the textbook greedy scan (reference uses byte comparison; its rolling pre-filter is cross-checked against the unfiltered variant), identical files cost < one block, a single k-byte edit in a file of distinct blocks costs <= k + 2 blocks.",
   "Bounded input space; chunk contents from 7 kinds including all-0xFF and high-sum blocks at every legal block size, matches after 1..5003 slides.",
   "DESIGN.md §3 C16"),
 "C17": ("E1-statespace", "model_checking",
   "explicit-state BFS over the real checksum objects (all op sequences to a depth, full-state dedup) + exhaustive macro-step sequences on boundary windows",
   "Every sequence of push/roll to depth 5 (quick) / 7 (thorough) from every initial window of length 0..4 over {00,01,80,FF}; every sequence to depth 6/9 over a 5-op alphabet from 42 windows whose sums exceed the modulus; every macro-step sequence (roll^k/push^k, k around L, 5000, 10001) to depth 2/3 on 19 boundary window lengths x 8 byte patterns. Every transition calls the real methods; the oracle is the exact-integer definition recomputed from the harness's own copy of the window, for both public types, plus component bounds and len().",
   "Bounded: windows <= 65536, byte values of large windows from 8 fixed patterns; release semantics (debug assertions off).",
   "DESIGN.md §3 C17"),
}
NOT_YET = "check not built yet in this round (planned: see DESIGN.md §1)"

def main():
    checks = []
    for pid in IDS:
        if pid not in CHECKS: continue
        eng, cat, tech, text, note, ref = CHECKS[pid]
        checks.append({
            "property_id": pid,
            "quick_cmd": f"./check {pid} --tier quick",
            "thorough_cmd": f"./check {pid} --tier thorough",
            "evidence_file": f"/verif/evidence/{pid}.json",
            "replay_cmd_template": f"./check {pid} --replay {{path}}",
            "engine": eng,
            "level_claimed": {"category": cat, "text": text, "design_ref": ref},
            "level_note": note,
            "technique": tech,
        })
    m = {
      "version": 1,
      "setup_cmd": "./check --setup",
      "hooks": {
        "guard": "--cfg paiml_copia_verif",
        "enable": "no source hooks are needed: checks build /repo unmodified (CLI with --features cli, release semantics) and observe it through an LD_PRELOAD interposer and by compiling the bin-crate modules unchanged into the harness via #[path]",
        "baseline_off_cmd": "cd /repo && cargo test --workspace --no-fail-fast --offline",
        "source_commits": [],
        "add_only": True,
      },
      "engines": [
        {"name": "vh", "path": "/verif/harness", "serves_properties": sorted(CHECKS), "kind_free_text": "Rust harness: bounded-exhaustive enumeration / explicit-state search / crash-point and schedule enumeration of the real code"},
        {"name": "libvshim", "path": "/verif/shim/vshim.c", "serves_properties": [p for p in ["C03","C08","C09","C10","C11","C12","C13"] if p in CHECKS], "kind_free_text": "LD_PRELOAD interposer: syscall log, kill-at-call-k fault injector, controlled scheduler"},
      ],
      "checks": checks,
      "not_applicable": [{"property_id": p, "reason": NOT_YET} for p in IDS if p not in CHECKS],
      "notes": "All checks are `./check <ID> --tier quick|thorough`; they rebuild the CLI and the harness from /repo's working tree on every invocation (cargo fingerprinting makes the unchanged case a no-op). Exit 0 = held (KNOWN-FINDING lines for listed findings), 1 = VIOLATION line(s), 2 = machinery error.",
    }
    json.dump(m, open("/verif/MANIFEST.json", "w"), indent=1)
    print("MANIFEST.json:", len(checks), "checks,", len(m["not_applicable"]), "not_applicable")
main()
