#!/usr/bin/env bash
# tools/ingest_seed.sh <Cxx> <worktree> <n1> <n2> — copy a sub-agent's two changes into seeded/Cxx-n1, seeded/Cxx-n2
id=$1; wt=$2; a=$3; b=$4
for pair in "1 $a" "2 $b"; do set -- $pair; k=$1; n=$2; d=/verif/seeded/$id-$n; mkdir -p $d
  cp $wt/_seed/change$k.diff $d/patch.diff
  for f in $wt/_seed/demo$k* $(ls $wt/_seed/*.c $wt/_seed/*.py $wt/_seed/*.sh $wt/_seed/ssh-standin $wt/_seed/fake* 2>/dev/null | grep -v "/demo[0-9]") ; do [ -f "$f" ] && [ $(stat -c %s "$f") -lt 300000 ] && cp "$f" $d/; done
  cp $wt/_seed/NOTES.md $d/NOTES.md 2>/dev/null
  (cd /repo && git apply --check $d/patch.diff) && echo "$id-$n applies" || echo "$id-$n DOES NOT APPLY"
done
