/* libvshim.so — LD_PRELOAD interposer used by the verification harness.
 *
 *  VSHIM_MODE=log     log every file-system-mutating libc call (and pipe writes) to VSHIM_LOG
 *  VSHIM_MODE=inject  as log, and SIGKILL the process immediately before call number VSHIM_KILL_AT
 *  VSHIM_MODE=sched   (only in a process whose argv[1] == "serve") announce every libc call that
 *                     touches a path/fd under VSHIM_ROOT, or reads stdin, to the explorer listening
 *                     on the Unix socket VSHIM_SOCK, and wait for its permission to proceed.
 *
 *  Only paths under VSHIM_ROOT (a prefix; several may be given separated by ':') are considered,
 *  plus — in log/inject mode — writes to FIFOs (the stdin of a child process).
 */
#define _GNU_SOURCE
#include <dlfcn.h>
#include <dirent.h>
#include <errno.h>
#include <fcntl.h>
#include <limits.h>
#include <signal.h>
#include <stdarg.h>
#include <stdio.h>
#include <stdlib.h>
#include <string.h>
#include <sys/file.h>
#include <sys/socket.h>
#include <sys/stat.h>
#include <sys/syscall.h>
#include <sys/types.h>
#include <sys/uio.h>
#include <sys/un.h>
#include <unistd.h>

enum { M_OFF = 0, M_LOG, M_INJECT, M_SCHED };
static int g_mode = M_OFF;
static int g_inited = 0;
static int g_logfd = -1;
static int g_sock = -1;
static int g_threaded = 0;            /* tsched: one scheduler connection per thread */
static __thread int t_sock = -1;
static char g_sockpath[108];
static long g_kill_at = -1;
static int g_count_reads = 0;         /* inject/log: read-side calls (stat, opendir, open O_RDONLY, read) are events too */
static long g_fail_at = -1;           /* inject: the k-th mutating call FAILS with g_fail_errno instead of running */
static int g_fail_errno = 28;         /* ENOSPC */
static __thread int t_fail = 0;
static __thread int t_short = 0;      /* VSHIM_FAIL_ERRNO < 0: the chosen write-like call is SHORT (half the bytes), not failed */
static long vshim_fail(void) { t_fail = 0; errno = g_fail_errno; return -1; }
static long g_counter = 0;
static char g_roots[8][PATH_MAX];
static int g_nroots = 0;
static __thread int g_inside = 0;

#define REAL(name) static __typeof__(name) *real_##name = NULL; if (!real_##name) real_##name = dlsym(RTLD_NEXT, #name)

static ssize_t raw_write(int fd, const void *b, size_t n) { return syscall(SYS_write, fd, b, n); }
static ssize_t raw_read(int fd, void *b, size_t n) { return syscall(SYS_read, fd, b, n); }

static int under_root(const char *p) {
    if (!p) return 0;
    for (int i = 0; i < g_nroots; i++) {
        size_t l = strlen(g_roots[i]);
        if (l == 1 && g_roots[i][0] == '/') return p[0] == '/'; /* root "/": every absolute path */
        if (strncmp(p, g_roots[i], l) == 0 && (p[l] == '/' || p[l] == 0)) return 1;
    }
    return 0;
}

static void abs_path(int dirfd, const char *p, char *out) {
    if (!p) { out[0] = 0; return; }
    if (p[0] == '/') { snprintf(out, PATH_MAX, "%s", p); return; }
    char base[PATH_MAX];
    if (dirfd == AT_FDCWD) {
        if (!getcwd(base, sizeof base)) base[0] = 0;
    } else {
        char l[64];
        snprintf(l, sizeof l, "/proc/self/fd/%d", dirfd);
        ssize_t n = readlink(l, base, sizeof base - 1);
        base[n > 0 ? n : 0] = 0;
    }
    snprintf(out, PATH_MAX, "%s/%s", base, p);
}

static void fd_path(int fd, char *out) {
    char l[64];
    snprintf(l, sizeof l, "/proc/self/fd/%d", fd);
    ssize_t n = readlink(l, out, PATH_MAX - 1);
    out[n > 0 ? n : 0] = 0;
}

static int is_fifo(int fd) {
    struct stat st;
    if (fstat(fd, &st) != 0) return 0;
    return S_ISFIFO(st.st_mode);
}

static int cur_sock(void);
static void sock_send(const char *s) {
    size_t n = strlen(s), o = 0;
    int fd = cur_sock();
    while (o < n) {
        ssize_t w = raw_write(fd, s + o, n - o);
        if (w <= 0) _exit(97);
        o += (size_t)w;
    }
}
static void sock_wait(char *buf, size_t cap) {
    size_t o = 0;
    int fd = cur_sock();
    for (;;) {
        char c;
        ssize_t r = raw_read(fd, &c, 1);
        if (r <= 0) _exit(98);
        if (c == '\n') break;
        if (o + 1 < cap) buf[o++] = c;
    }
    buf[o] = 0;
}

static int connect_sched(void) {
    int s = socket(AF_UNIX, SOCK_STREAM | SOCK_CLOEXEC, 0);
    if (s < 0) _exit(96);
    struct sockaddr_un a;
    memset(&a, 0, sizeof a);
    a.sun_family = AF_UNIX;
    snprintf(a.sun_path, sizeof a.sun_path, "%s", g_sockpath);
    if (connect(s, (struct sockaddr *)&a, sizeof a) != 0) { syscall(SYS_close, s); _exit(96); }
    int d = fcntl(s, F_DUPFD_CLOEXEC, 901);
    syscall(SYS_close, s);
    if (d < 0) _exit(96);
    return d;
}
/* the scheduler connection of the calling thread (tsched) or of the process (sched) */
static int cur_sock(void) {
    if (!g_threaded) return g_sock;
    if (t_sock < 0) {
        t_sock = connect_sched();
        char hello[96];
        int l = snprintf(hello, sizeof hello, "HELLO %d %ld\n", (int)getpid(), (long)syscall(SYS_gettid));
        raw_write(t_sock, hello, (size_t)l);
    }
    return t_sock;
}

static void init_once(void) {
    if (g_inited) return;
    g_inited = 1;
    const char *m = getenv("VSHIM_MODE");
    if (!m) return;
    const char *roots = getenv("VSHIM_ROOT");
    if (roots) {
        const char *p = roots;
        while (*p && g_nroots < 8) {
            const char *e = strchr(p, ':');
            size_t l = e ? (size_t)(e - p) : strlen(p);
            if (l > 0 && l < PATH_MAX) { memcpy(g_roots[g_nroots], p, l); g_roots[g_nroots][l] = 0; g_nroots++; }
            if (!e) break;
            p = e + 1;
        }
    }
    if (!strcmp(m, "log") || !strcmp(m, "inject")) {
        const char *lf = getenv("VSHIM_LOG");
        if (!lf) return;
        int fd = (int)syscall(SYS_openat, AT_FDCWD, lf, O_WRONLY | O_CREAT | O_APPEND | O_CLOEXEC, 0644);
        if (fd < 0) return;
        g_logfd = fcntl(fd, F_DUPFD_CLOEXEC, 900);
        syscall(SYS_close, fd);
        if (g_logfd < 0) return;
        const char *k = getenv("VSHIM_KILL_AT");
        g_kill_at = (k && !strcmp(m, "inject")) ? atol(k) : -1;
        const char *fa = getenv("VSHIM_FAIL_AT");
        g_fail_at = (fa && !strcmp(m, "inject")) ? atol(fa) : -1;
        const char *cr = getenv("VSHIM_COUNT_READS");
        g_count_reads = (cr && *cr == '1');
        const char *fe = getenv("VSHIM_FAIL_ERRNO");
        if (fe) g_fail_errno = atoi(fe);
        g_mode = !strcmp(m, "inject") ? M_INJECT : M_LOG;
    } else if (!strcmp(m, "tsched")) {
        /* thread-level control of one `copia sync …` process: every thread announces its calls on its own connection */
        char cl[4096];
        int fd = (int)syscall(SYS_openat, AT_FDCWD, "/proc/self/cmdline", O_RDONLY);
        if (fd < 0) return;
        ssize_t n = raw_read(fd, cl, sizeof cl - 1);
        syscall(SYS_close, fd);
        if (n <= 0) return;
        cl[n] = 0;
        const char *a1 = cl + strlen(cl) + 1;
        if (a1 >= cl + n || strcmp(a1, "sync") != 0) return;
        const char *sp = getenv("VSHIM_SOCK");
        if (!sp || strlen(sp) >= sizeof g_sockpath) return;
        strcpy(g_sockpath, sp);
        g_threaded = 1;
        g_mode = M_SCHED;
    } else if (!strcmp(m, "sched")) {
        /* only a `copia serve …` process is controlled */
        char cl[4096];
        int fd = (int)syscall(SYS_openat, AT_FDCWD, "/proc/self/cmdline", O_RDONLY);
        if (fd < 0) return;
        ssize_t n = raw_read(fd, cl, sizeof cl - 1);
        syscall(SYS_close, fd);
        if (n <= 0) return;
        cl[n] = 0;
        const char *a1 = cl + strlen(cl) + 1;
        if (a1 >= cl + n || strcmp(a1, "serve") != 0) return;
        const char *sp = getenv("VSHIM_SOCK");
        if (!sp) return;
        int s = socket(AF_UNIX, SOCK_STREAM | SOCK_CLOEXEC, 0);
        if (s < 0) return;
        struct sockaddr_un a;
        memset(&a, 0, sizeof a);
        a.sun_family = AF_UNIX;
        snprintf(a.sun_path, sizeof a.sun_path, "%s", sp);
        if (connect(s, (struct sockaddr *)&a, sizeof a) != 0) { syscall(SYS_close, s); _exit(96); }
        g_sock = fcntl(s, F_DUPFD_CLOEXEC, 901);
        syscall(SYS_close, s);
        g_mode = M_SCHED;
        char hello[256];
        const char *id = getenv("VSHIM_CLIENT_ID");
        snprintf(hello, sizeof hello, "HELLO %d %s\n", (int)getpid(), id ? id : "?");
        sock_send(hello);
        char buf[64];
        sock_wait(buf, sizeof buf); /* GO */
    }
}

static void esc(const char *in, char *out, size_t cap) {
    size_t o = 0;
    for (const unsigned char *p = (const unsigned char *)in; *p && o + 5 < cap; p++) {
        if (*p == '\\' || *p == '\t' || *p == '\n' || *p == ' ' || *p < 0x20) o += (size_t)snprintf(out + o, cap - o, "\\x%02x", *p);
        else out[o++] = (char)*p;
    }
    out[o] = 0;
}

/* log/inject: one mutating call. Returns after logging (or never, if killed). */
static void mut_event(const char *call, const char *p1, const char *p2, long size, long flags) {
    long n = __atomic_add_fetch(&g_counter, 1, __ATOMIC_SEQ_CST);
    char e1[PATH_MAX * 2], e2[PATH_MAX * 2], line[PATH_MAX * 4 + 128];
    esc(p1 ? p1 : "", e1, sizeof e1);
    esc(p2 ? p2 : "", e2, sizeof e2);
    int kill_now = (g_mode == M_INJECT && n == g_kill_at);
    int fail_now = (g_mode == M_INJECT && n == g_fail_at);
    if (fail_now) {
        if (g_fail_errno >= 0) t_fail = 1;
        /* regular files only: a non-blocking pipe never takes a write short unless it is FULL, and tokio relies on
         * exactly that (it waits for writability after a short write) — a short pipe write is not a possible answer */
        else if (strcmp(p1 ? p1 : "", "<pipe>") && (!strncmp(call, "write", 5) || !strcmp(call, "copy_file_range") || !strcmp(call, "sendfile") || !strcmp(call, "splice"))) t_short = 1;
    }
    int l = snprintf(line, sizeof line, "%ld\t%ld\t%s\t%s\t%s\t%ld\t%ld\t%s\n", n, (long)syscall(SYS_gettid), call, e1, e2, size, flags, kill_now ? "KILLED-BEFORE" : fail_now ? (g_fail_errno >= 0 ? "FAILED" : (t_short ? "FAILED" : "")) : "");
    raw_write(g_logfd, line, (size_t)l);
    if (kill_now) {
        syscall(SYS_kill, getpid(), SIGKILL);
        for (;;) pause();
    }
}

/* sched: announce a call and wait for permission */
static void sched_at(const char *call, const char *p1, const char *p2, long size) {
    char e1[PATH_MAX * 2], e2[PATH_MAX * 2], line[PATH_MAX * 4 + 128], buf[64];
    esc(p1 ? p1 : "", e1, sizeof e1);
    esc(p2 ? p2 : "", e2, sizeof e2);
    snprintf(line, sizeof line, "AT %s %s %s %ld\n", call, e1[0] ? e1 : "-", e2[0] ? e2 : "-", size);
    sock_send(line);
    sock_wait(buf, sizeof buf);
}
static void sched_done(const char *call, long ret, int err) {
    char line[160];
    snprintf(line, sizeof line, "DONE %s %ld %d\n", call, ret, ret < 0 ? err : 0);
    sock_send(line);
}

#define ENTER() init_once(); int active_ = (g_mode != M_OFF && !g_inside); if (active_) g_inside = 1
#define LEAVE() if (active_) g_inside = 0

/* Generic path-taking mutating call */
#define PATH_EVENT(call, dirfd, path, dirfd2, path2, size, flags, is_mut)                      \
    char ap_[PATH_MAX], ap2_[PATH_MAX]; ap_[0] = ap2_[0] = 0; int rel_ = 0;                      \
    if (active_) {                                                                               \
        abs_path(dirfd, path, ap_);                                                              \
        if (path2) abs_path(dirfd2, path2, ap2_);                                                \
        rel_ = under_root(ap_) || (path2 && under_root(ap2_));                                   \
        if (rel_ && (g_mode == M_LOG || g_mode == M_INJECT) && ((is_mut) || g_count_reads)) mut_event(call, ap_, ap2_, size, flags); \
        if (rel_ && g_mode == M_SCHED) sched_at(call, ap_, ap2_, size);                          \
    }
#define PATH_DONE(call, ret) if (active_ && rel_ && g_mode == M_SCHED) { int e_ = errno; sched_done(call, (long)(ret), e_); errno = e_; }

#define FD_EVENT(call, fd, size, flags, is_mut, count_fifo)                                      \
    char fp_[PATH_MAX]; fp_[0] = 0; int rel_ = 0;                                                 \
    if (active_ && (fd) > 2 && (fd) != g_logfd && (fd) != g_sock && !(g_threaded && (fd) >= 901)) {                               \
        fd_path(fd, fp_);                                                                        \
        rel_ = under_root(fp_);                                                                  \
        int fifo_ = 0;                                                                           \
        if (!rel_ && (count_fifo) && (g_mode == M_LOG || g_mode == M_INJECT) && is_fifo(fd)) { fifo_ = 1; } \
        if ((rel_ || fifo_) && (g_mode == M_LOG || g_mode == M_INJECT) && ((is_mut) || (g_count_reads && rel_))) mut_event(call, fifo_ ? "<pipe>" : fp_, "", size, flags); \
        if (rel_ && g_mode == M_SCHED) sched_at(call, fp_, "", size);                            \
    }
#define FD_DONE(call, ret) if (active_ && rel_ && g_mode == M_SCHED) { int e_ = errno; sched_done(call, (long)(ret), e_); errno = e_; }

static int open_is_mut(int flags) { return (flags & (O_WRONLY | O_RDWR | O_CREAT | O_TRUNC)) != 0; }

int open(const char *path, int flags, ...) {
    REAL(open);
    mode_t mode = 0;
    if (flags & (O_CREAT | O_TMPFILE)) { va_list ap; va_start(ap, flags); mode = va_arg(ap, mode_t); va_end(ap); }
    ENTER();
    PATH_EVENT("open", AT_FDCWD, path, 0, NULL, 0, flags, open_is_mut(flags));
    int r = t_fail ? (int)vshim_fail() : real_open(path, flags, mode);
    PATH_DONE("open", r);
    LEAVE();
    return r;
}
int open64(const char *path, int flags, ...) {
    REAL(open64);
    mode_t mode = 0;
    if (flags & (O_CREAT | O_TMPFILE)) { va_list ap; va_start(ap, flags); mode = va_arg(ap, mode_t); va_end(ap); }
    ENTER();
    PATH_EVENT("open", AT_FDCWD, path, 0, NULL, 0, flags, open_is_mut(flags));
    int r = t_fail ? (int)vshim_fail() : real_open64(path, flags, mode);
    PATH_DONE("open", r);
    LEAVE();
    return r;
}
int openat(int dirfd, const char *path, int flags, ...) {
    REAL(openat);
    mode_t mode = 0;
    if (flags & (O_CREAT | O_TMPFILE)) { va_list ap; va_start(ap, flags); mode = va_arg(ap, mode_t); va_end(ap); }
    ENTER();
    PATH_EVENT("open", dirfd, path, 0, NULL, 0, flags, open_is_mut(flags));
    int r = t_fail ? (int)vshim_fail() : real_openat(dirfd, path, flags, mode);
    PATH_DONE("open", r);
    LEAVE();
    return r;
}
int openat64(int dirfd, const char *path, int flags, ...) {
    REAL(openat64);
    mode_t mode = 0;
    if (flags & (O_CREAT | O_TMPFILE)) { va_list ap; va_start(ap, flags); mode = va_arg(ap, mode_t); va_end(ap); }
    ENTER();
    PATH_EVENT("open", dirfd, path, 0, NULL, 0, flags, open_is_mut(flags));
    int r = t_fail ? (int)vshim_fail() : real_openat64(dirfd, path, flags, mode);
    PATH_DONE("open", r);
    LEAVE();
    return r;
}
int creat(const char *path, mode_t mode) {
    REAL(creat);
    ENTER();
    PATH_EVENT("open", AT_FDCWD, path, 0, NULL, 0, O_CREAT | O_WRONLY | O_TRUNC, 1);
    int r = t_fail ? (int)vshim_fail() : real_creat(path, mode);
    PATH_DONE("open", r);
    LEAVE();
    return r;
}

ssize_t write(int fd, const void *buf, size_t n) {
    REAL(write);
    ENTER();
    FD_EVENT("write", fd, (long)n, 0, 1, 1);
    if (t_short) { t_short = 0; if (n > 1) n = n / 2; }
    ssize_t r = t_fail ? (ssize_t)vshim_fail() : real_write(fd, buf, n);
    FD_DONE("write", r);
    LEAVE();
    return r;
}
ssize_t writev(int fd, const struct iovec *iov, int cnt) {
    REAL(writev);
    ENTER();
    long tot = 0;
    for (int i = 0; i < cnt; i++) tot += (long)iov[i].iov_len;
    FD_EVENT("write", fd, tot, 0, 1, 1);
    ssize_t r = t_fail ? (ssize_t)vshim_fail() : real_writev(fd, iov, cnt);
    FD_DONE("write", r);
    LEAVE();
    return r;
}
ssize_t pwrite64(int fd, const void *buf, size_t n, off64_t off) {
    REAL(pwrite64);
    ENTER();
    FD_EVENT("write", fd, (long)n, 0, 1, 0);
    if (t_short) { t_short = 0; if (n > 1) n = n / 2; }
    ssize_t r = t_fail ? (ssize_t)vshim_fail() : real_pwrite64(fd, buf, n, off);
    FD_DONE("write", r);
    LEAVE();
    return r;
}
ssize_t pwrite(int fd, const void *buf, size_t n, off_t off) {
    REAL(pwrite);
    ENTER();
    FD_EVENT("write", fd, (long)n, 0, 1, 0);
    if (t_short) { t_short = 0; if (n > 1) n = n / 2; }
    ssize_t r = t_fail ? (ssize_t)vshim_fail() : real_pwrite(fd, buf, n, off);
    FD_DONE("write", r);
    LEAVE();
    return r;
}

ssize_t read(int fd, void *buf, size_t n) {
    REAL(read);
    ENTER();
    if (active_ && g_mode == M_SCHED && fd == 0) {
        char b[64];
        sock_send("WANT_INPUT\n");
        sock_wait(b, sizeof b);
        ssize_t r = real_read(fd, buf, n);
        int e_ = errno;
        sched_done("stdin", (long)r, e_);
        errno = e_;
        LEAVE();
        return r;
    }
    FD_EVENT("read", fd, (long)n, 0, 0, 0);
    ssize_t r = t_fail ? (ssize_t)vshim_fail() : real_read(fd, buf, n);
    FD_DONE("read", r);
    LEAVE();
    return r;
}

int fsync(int fd) {
    REAL(fsync);
    ENTER();
    FD_EVENT("fsync", fd, 0, 0, 1, 0);
    int r = t_fail ? (int)vshim_fail() : real_fsync(fd);
    FD_DONE("fsync", r);
    LEAVE();
    return r;
}
int fdatasync(int fd) {
    REAL(fdatasync);
    ENTER();
    FD_EVENT("fsync", fd, 0, 0, 1, 0);
    int r = t_fail ? (int)vshim_fail() : real_fdatasync(fd);
    FD_DONE("fsync", r);
    LEAVE();
    return r;
}
int ftruncate(int fd, off_t len) {
    REAL(ftruncate);
    ENTER();
    FD_EVENT("ftruncate", fd, (long)len, 0, 1, 0);
    int r = t_fail ? (int)vshim_fail() : real_ftruncate(fd, len);
    FD_DONE("ftruncate", r);
    LEAVE();
    return r;
}
int ftruncate64(int fd, off64_t len) {
    REAL(ftruncate64);
    ENTER();
    FD_EVENT("ftruncate", fd, (long)len, 0, 1, 0);
    int r = t_fail ? (int)vshim_fail() : real_ftruncate64(fd, len);
    FD_DONE("ftruncate", r);
    LEAVE();
    return r;
}
int fchmod(int fd, mode_t m) {
    REAL(fchmod);
    ENTER();
    FD_EVENT("fchmod", fd, 0, (long)m, 1, 0);
    int r = t_fail ? (int)vshim_fail() : real_fchmod(fd, m);
    FD_DONE("fchmod", r);
    LEAVE();
    return r;
}
int futimens(int fd, const struct timespec t[2]) {
    REAL(futimens);
    ENTER();
    FD_EVENT("futimens", fd, t ? (long)t[1].tv_sec : -1, 0, 1, 0);
    int r = t_fail ? (int)vshim_fail() : real_futimens(fd, t);
    FD_DONE("futimens", r);
    LEAVE();
    return r;
}
int utimensat(int dirfd, const char *path, const struct timespec t[2], int flags) {
    REAL(utimensat);
    ENTER();
    if (path == NULL) {
        FD_EVENT("futimens", dirfd, t ? (long)t[1].tv_sec : -1, 0, 1, 0);
        int r = t_fail ? (int)vshim_fail() : real_utimensat(dirfd, path, t, flags);
        FD_DONE("futimens", r);
        LEAVE();
        return r;
    }
    PATH_EVENT("utimens", dirfd, path, 0, NULL, t ? (long)t[1].tv_sec : -1, 0, 1);
    int r = t_fail ? (int)vshim_fail() : real_utimensat(dirfd, path, t, flags);
    PATH_DONE("utimens", r);
    LEAVE();
    return r;
}
/* sched: a call that consumes the server's standard input without read(2) (splice/sendfile/copy_file_range
 * from fd 0) must ask the driver for input exactly as read(0) does, or it would block on an empty pipe. */
static void sched_want_input_if_stdin(int in) {
    if (g_mode == M_SCHED && !g_threaded && in == 0) {
        char b[64];
        sock_send("WANT_INPUT\n");
        sock_wait(b, sizeof b);
    }
}
ssize_t copy_file_range(int in, off64_t *oi, int out, off64_t *oo, size_t n, unsigned fl) {
    REAL(copy_file_range);
    ENTER();
    if (active_) sched_want_input_if_stdin(in);
    FD_EVENT("copy_file_range", out, (long)n, 0, 1, 0);
    if (t_short) { t_short = 0; if (n > 1) n = n / 2; }
    ssize_t r = t_fail ? (ssize_t)vshim_fail() : real_copy_file_range(in, oi, out, oo, n, fl);
    if (active_ && rel_ && (g_mode == M_LOG || g_mode == M_INJECT) && r >= 0) {
        char l[96];
        int k = snprintf(l, sizeof l, "=\t\tcopied\t\t\t%ld\t0\t\n", (long)r);
        raw_write(g_logfd, l, (size_t)k);
    }
    FD_DONE("copy_file_range", r);
    LEAVE();
    return r;
}
ssize_t sendfile64(int out, int in, off64_t *off, size_t n) {
    static ssize_t (*real_sf)(int, int, off64_t *, size_t) = NULL;
    if (!real_sf) real_sf = dlsym(RTLD_NEXT, "sendfile64");
    ENTER();
    FD_EVENT("sendfile", out, (long)n, 0, 1, 1);
    if (t_short) { t_short = 0; if (n > 1) n = n / 2; }
    ssize_t r = t_fail ? (ssize_t)vshim_fail() : real_sf(out, in, off, n);
    FD_DONE("sendfile", r);
    LEAVE();
    return r;
}
ssize_t sendfile(int out, int in, off_t *off, size_t n) {
    static ssize_t (*real_sf)(int, int, off_t *, size_t) = NULL;
    if (!real_sf) real_sf = dlsym(RTLD_NEXT, "sendfile");
    ENTER();
    FD_EVENT("sendfile", out, (long)n, 0, 1, 1);
    if (t_short) { t_short = 0; if (n > 1) n = n / 2; }
    ssize_t r = t_fail ? (ssize_t)vshim_fail() : real_sf(out, in, off, n);
    FD_DONE("sendfile", r);
    LEAVE();
    return r;
}
ssize_t splice(int in, off64_t *oi, int out, off64_t *oo, size_t n, unsigned fl) {
    REAL(splice);
    ENTER();
    if (active_) sched_want_input_if_stdin(in);
    FD_EVENT("splice", out, (long)n, 0, 1, 1);
    if (t_short) { t_short = 0; if (n > 1) n = n / 2; }
    ssize_t r = t_fail ? (ssize_t)vshim_fail() : real_splice(in, oi, out, oo, n, fl);
    FD_DONE("splice", r);
    LEAVE();
    return r;
}

int rename(const char *a, const char *b) {
    REAL(rename);
    ENTER();
    PATH_EVENT("rename", AT_FDCWD, a, AT_FDCWD, b, 0, 0, 1);
    int r = t_fail ? (int)vshim_fail() : real_rename(a, b);
    PATH_DONE("rename", r);
    LEAVE();
    return r;
}
int renameat(int d1, const char *a, int d2, const char *b) {
    REAL(renameat);
    ENTER();
    PATH_EVENT("rename", d1, a, d2, b, 0, 0, 1);
    int r = t_fail ? (int)vshim_fail() : real_renameat(d1, a, d2, b);
    PATH_DONE("rename", r);
    LEAVE();
    return r;
}
int renameat2(int d1, const char *a, int d2, const char *b, unsigned fl) {
    REAL(renameat2);
    ENTER();
    PATH_EVENT("rename", d1, a, d2, b, 0, (long)fl, 1);
    int r = t_fail ? (int)vshim_fail() : real_renameat2(d1, a, d2, b, fl);
    PATH_DONE("rename", r);
    LEAVE();
    return r;
}
int unlink(const char *p) {
    REAL(unlink);
    ENTER();
    PATH_EVENT("unlink", AT_FDCWD, p, 0, NULL, 0, 0, 1);
    int r = t_fail ? (int)vshim_fail() : real_unlink(p);
    PATH_DONE("unlink", r);
    LEAVE();
    return r;
}
int unlinkat(int d, const char *p, int fl) {
    REAL(unlinkat);
    ENTER();
    PATH_EVENT("unlink", d, p, 0, NULL, 0, (long)fl, 1);
    int r = t_fail ? (int)vshim_fail() : real_unlinkat(d, p, fl);
    PATH_DONE("unlink", r);
    LEAVE();
    return r;
}
int rmdir(const char *p) {
    REAL(rmdir);
    ENTER();
    PATH_EVENT("rmdir", AT_FDCWD, p, 0, NULL, 0, 0, 1);
    int r = t_fail ? (int)vshim_fail() : real_rmdir(p);
    PATH_DONE("rmdir", r);
    LEAVE();
    return r;
}
int mkdir(const char *p, mode_t m) {
    REAL(mkdir);
    ENTER();
    PATH_EVENT("mkdir", AT_FDCWD, p, 0, NULL, 0, (long)m, 1);
    int r = t_fail ? (int)vshim_fail() : real_mkdir(p, m);
    PATH_DONE("mkdir", r);
    LEAVE();
    return r;
}
int mkdirat(int d, const char *p, mode_t m) {
    REAL(mkdirat);
    ENTER();
    PATH_EVENT("mkdir", d, p, 0, NULL, 0, (long)m, 1);
    int r = t_fail ? (int)vshim_fail() : real_mkdirat(d, p, m);
    PATH_DONE("mkdir", r);
    LEAVE();
    return r;
}
int truncate(const char *p, off_t len) {
    REAL(truncate);
    ENTER();
    PATH_EVENT("truncate", AT_FDCWD, p, 0, NULL, (long)len, 0, 1);
    int r = t_fail ? (int)vshim_fail() : real_truncate(p, len);
    PATH_DONE("truncate", r);
    LEAVE();
    return r;
}
int chmod(const char *p, mode_t m) {
    REAL(chmod);
    ENTER();
    PATH_EVENT("chmod", AT_FDCWD, p, 0, NULL, 0, (long)m, 1);
    int r = t_fail ? (int)vshim_fail() : real_chmod(p, m);
    PATH_DONE("chmod", r);
    LEAVE();
    return r;
}
int linkat(int d1, const char *a, int d2, const char *b, int fl) {
    REAL(linkat);
    ENTER();
    PATH_EVENT("link", d1, a, d2, b, 0, 0, 1);
    int r = t_fail ? (int)vshim_fail() : real_linkat(d1, a, d2, b, fl);
    PATH_DONE("link", r);
    LEAVE();
    return r;
}
int symlinkat(const char *a, int d, const char *b) {
    REAL(symlinkat);
    ENTER();
    PATH_EVENT("symlink", d, b, 0, NULL, 0, 0, 1);
    int r = t_fail ? (int)vshim_fail() : real_symlinkat(a, d, b);
    PATH_DONE("symlink", r);
    LEAVE();
    return r;
}
int link(const char *a, const char *b) {
    REAL(link);
    ENTER();
    PATH_EVENT("link", AT_FDCWD, a, AT_FDCWD, b, 0, 0, 1);
    int r = t_fail ? (int)vshim_fail() : real_link(a, b);
    PATH_DONE("link", r);
    LEAVE();
    return r;
}
int symlink(const char *a, const char *b) {
    REAL(symlink);
    ENTER();
    PATH_EVENT("symlink", AT_FDCWD, b, 0, NULL, 0, 0, 1);
    int r = t_fail ? (int)vshim_fail() : real_symlink(a, b);
    PATH_DONE("symlink", r);
    LEAVE();
    return r;
}

/* ── observing calls: scheduling points only (never counted as mutating) ── */
int statx(int dirfd, const char *path, int flags, unsigned mask, struct statx *st) {
    REAL(statx);
    /* std probes for statx support with statx(0, NULL, 0, mask, NULL) after a failure: pass it straight through */
    const char *volatile pv = path;
    if (pv == NULL || st == NULL) return real_statx(dirfd, path, flags, mask, st);
    ENTER();
    if (path && path[0] == 0) { /* AT_EMPTY_PATH: fstat-like */
        FD_EVENT("fstat", dirfd, 0, 0, 0, 0);
        int r = t_fail ? (int)vshim_fail() : real_statx(dirfd, path, flags, mask, st);
        FD_DONE("fstat", r);
        LEAVE();
        return r;
    }
    PATH_EVENT("stat", dirfd, path, 0, NULL, 0, 0, 0);
    int r = t_fail ? (int)vshim_fail() : real_statx(dirfd, path, flags, mask, st);
    PATH_DONE("stat", r);
    LEAVE();
    return r;
}
int stat64(const char *path, struct stat64 *st) {
    REAL(stat64);
    ENTER();
    PATH_EVENT("stat", AT_FDCWD, path, 0, NULL, 0, 0, 0);
    int r = t_fail ? (int)vshim_fail() : real_stat64(path, st);
    PATH_DONE("stat", r);
    LEAVE();
    return r;
}
int lstat64(const char *path, struct stat64 *st) {
    REAL(lstat64);
    ENTER();
    PATH_EVENT("stat", AT_FDCWD, path, 0, NULL, 0, 0, 0);
    int r = t_fail ? (int)vshim_fail() : real_lstat64(path, st);
    PATH_DONE("stat", r);
    LEAVE();
    return r;
}
int stat(const char *path, struct stat *st) {
    REAL(stat);
    ENTER();
    PATH_EVENT("stat", AT_FDCWD, path, 0, NULL, 0, 0, 0);
    int r = t_fail ? (int)vshim_fail() : real_stat(path, st);
    PATH_DONE("stat", r);
    LEAVE();
    return r;
}
int lstat(const char *path, struct stat *st) {
    REAL(lstat);
    ENTER();
    PATH_EVENT("stat", AT_FDCWD, path, 0, NULL, 0, 0, 0);
    int r = t_fail ? (int)vshim_fail() : real_lstat(path, st);
    PATH_DONE("stat", r);
    LEAVE();
    return r;
}
/* glibc fills its buffer with getdents on the FIRST readdir of a stream: that call is the
 * instant at which the directory content is observed, so it is the scheduling point. */
static DIR *g_fresh[32];
DIR *opendir(const char *path) {
    REAL(opendir);
    ENTER();
    PATH_EVENT("opendir", AT_FDCWD, path, 0, NULL, 0, 0, 0);
    DIR *r = t_fail ? (vshim_fail(), (DIR *)NULL) : real_opendir(path);
    if (active_ && rel_ && r) {
        for (int i = 0; i < 32; i++) if (!g_fresh[i]) { g_fresh[i] = r; break; }
    }
    PATH_DONE("opendir", r ? 0 : -1);
    LEAVE();
    return r;
}
struct dirent64 *readdir64(DIR *d) {
    REAL(readdir64);
    ENTER();
    int fresh = 0;
    if (active_ && g_mode == M_SCHED) {
        for (int i = 0; i < 32; i++) if (g_fresh[i] == d) { g_fresh[i] = NULL; fresh = 1; break; }
    }
    if (fresh) {
        char fp[PATH_MAX];
        fd_path(dirfd(d), fp);
        sched_at("readdir", fp, "", 0);
        struct dirent64 *r = real_readdir64(d);
        int e = errno;
        sched_done("readdir", r ? 0 : -1, e);
        errno = e;
        LEAVE();
        return r;
    }
    struct dirent64 *r = real_readdir64(d);
    LEAVE();
    return r;
}
int closedir(DIR *d) {
    REAL(closedir);
    for (int i = 0; i < 32; i++) if (g_fresh[i] == d) g_fresh[i] = NULL;
    return real_closedir(d);
}
ssize_t readlink(const char *path, char *buf, size_t n) {
    REAL(readlink);
    ENTER();
    PATH_EVENT("readlink", AT_FDCWD, path, 0, NULL, 0, 0, 0);
    ssize_t r = t_fail ? (ssize_t)vshim_fail() : real_readlink(path, buf, n);
    PATH_DONE("readlink", r);
    LEAVE();
    return r;
}

int flock(int fd, int op) {
    REAL(flock);
    ENTER();
    if (active_ && g_mode == M_SCHED && fd > 2) {
        char fp[PATH_MAX];
        fd_path(fd, fp);
        if (under_root(fp)) {
            if ((op & ~LOCK_NB) == LOCK_EX || (op & ~LOCK_NB) == LOCK_SH) {
                sched_at("flock", fp, "", op);
                for (;;) {
                    int r = real_flock(fd, op | LOCK_NB);
                    if (r == 0) { sched_done("flock", 0, 0); LEAVE(); return 0; }
                    if (errno != EWOULDBLOCK) { int e = errno; sched_done("flock", -1, e); errno = e; LEAVE(); return -1; }
                    if (op & LOCK_NB) { sched_done("flock", -1, EWOULDBLOCK); errno = EWOULDBLOCK; LEAVE(); return -1; }
                    char b[64];
                    sock_send("BLOCKED\n");
                    sock_wait(b, sizeof b); /* RETRY */
                }
            } else {
                sched_at("funlock", fp, "", op);
                int r = real_flock(fd, op);
                int e = errno;
                sched_done("funlock", r, e);
                errno = e;
                LEAVE();
                return r;
            }
        }
    }
    int r = real_flock(fd, op);
    LEAVE();
    return r;
}
